"""MATLAB generator rules: C15 (X1-X4), C10 (T1-T5), C06 (M1-M7), C11 (H1-H4), C16/Y1."""
from __future__ import annotations

import ast
import copy
import re
from typing import Dict, List, Optional, Set, Tuple

from .core import AnalysisError, Report
from .emit import Folder, Slot, Tpl
from .prog import (ClassInfo, Program, bind_call, bound_args, clone_expr, dotted, enclosing, func_params, guards_of, inline_locals,
                   local_assignments, parent, stmt_of, unparse, value_def, walk_no_nested)

MW = "gtwrap/matlab_wrapper/wrapper.py"


def mw(ctx) -> Tuple[ClassInfo, Program]:
    return ctx.prog.cls("MatlabWrapper"), ctx.prog


def canon_expr(fn, e: ast.AST, subject: Optional[str] = None) -> str:
    """Inline single-assignment locals and rename the subject variable to `_S`."""
    x = inline_locals(fn, e)
    if subject:
        for n in ast.walk(x):
            if isinstance(n, ast.Name) and n.id == subject:
                n.id = "_S"
    return unparse(x)


# ------------------------------------------------------------------------------------------
# C15
_IGNORE_HELPERS: Dict[str, Tuple[str, bool]] = {}      # method name -> (its parameter that is looked up, "in" polarity)


def _prepare_ignore_helpers(prog) -> None:
    """Methods that answer "is this name on the ignore list" for their argument: one parameter, every return is a
    membership test of that parameter in self.ignore_classes (a call of such a method is then an ignore test)."""
    _IGNORE_HELPERS.clear()
    for cname in ("PybindWrapper", "MatlabWrapper"):
        if not prog.has_cls(cname):
            continue
        for c in prog.mro(prog.cls(cname)):
            for mname, fn in c.methods.items():
                ps = [a.arg for a in fn.args.args if a.arg != "self"]
                rets = [r.value for r in walk_no_nested(fn) if isinstance(r, ast.Return) and r.value is not None]
                if len(ps) == 1 and rets and all(isinstance(r, ast.Compare) and len(r.ops) == 1 and isinstance(r.ops[0], (ast.In, ast.NotIn))
                                                 and unparse(r.comparators[0]) == "self.ignore_classes" and unparse(r.left) == ps[0] for r in rets):
                    _IGNORE_HELPERS[mname] = (ps[0], isinstance(rets[0].ops[0], ast.In))


def _ignore_tests(cls_fn) -> List[ast.Compare]:
    out = [c for c in ast.walk(cls_fn) if isinstance(c, ast.Compare) and len(c.ops) == 1 and isinstance(c.ops[0], (ast.In, ast.NotIn))
           and unparse(c.comparators[0]) == "self.ignore_classes"]
    if isinstance(cls_fn, ast.FunctionDef) and cls_fn.name in _IGNORE_HELPERS:
        return []            # the helper's own test is counted at its call sites
    for c in ast.walk(cls_fn):
        if isinstance(c, ast.Call) and isinstance(c.func, ast.Attribute) and unparse(c.func.value) == "self" and c.func.attr in _IGNORE_HELPERS \
                and len(c.args) == 1:
            syn = ast.Compare(left=c.args[0], ops=[ast.In() if _IGNORE_HELPERS[c.func.attr][1] else ast.NotIn()],
                              comparators=[ast.parse("self.ignore_classes", mode="eval").body])
            ast.copy_location(syn, c)
            syn._parent = getattr(c, "_parent", None)
            out.append(syn)
    return out


def rule_ignore_entries_match_whole_names(ctx, rep: Report, rid="X5"):
    """An ignore entry names one class: the list is only ever consulted by membership (`name in self.ignore_classes`),
    never walked to compare entries by prefix, pattern or substring - with `re.match(entry, name)` or `startswith` the
    entry `geo::Point` also removes `geo::Point2` and `geo::PointCloud`."""
    prog = ctx.prog
    n = 0
    for cname in ("PybindWrapper", "MatlabWrapper"):
        ci = prog.cls(cname)
        for c in prog.mro(ci):
            for mname, fn in sorted(c.methods.items()):
                for a in walk_no_nested(fn):
                    if not (isinstance(a, ast.Attribute) and isinstance(a.ctx, ast.Load) and unparse(a) == "self.ignore_classes"):
                        continue
                    p_ = parent(a)
                    n += 1
                    membership = isinstance(p_, ast.Compare) and len(p_.ops) == 1 and isinstance(p_.ops[0], (ast.In, ast.NotIn)) and p_.comparators[0] is a
                    shown = isinstance(p_, ast.FormattedValue) or (isinstance(p_, ast.Call) and unparse(p_.func) in ("print", "str", "repr", "len", "list", "tuple"))
                    rep.add(rid, f"{cname}.{mname}:#{sum(1 for o in rep.obs if o.rule == rid and o.construct.startswith(cname + '.' + mname + ':')) + 1}:"
                                 f"the ignore list is consulted by membership only", membership or shown,
                            f"`{unparse(stmt_of(a))[:80]}` walks or transforms the ignore list instead of testing membership: entries are then matched by "
                            f"something weaker than equality (prefix, pattern, substring) and ignoring one class removes others", f"{c.mod.rel}:{a.lineno}")
    if n < 2:
        raise AnalysisError(f"{rep.prop}/{rid}: only {n} uses of the ignore list found (each generator consults it at least once)")


def rule_one_ignore_key(ctx, rep: Report, rid="X1"):
    prog = ctx.prog
    _prepare_ignore_helpers(prog)
    for cls, min_sites in (("PybindWrapper", 3), ("MatlabWrapper", 2)):
        ci = prog.cls(cls)
        forms: Dict[str, List[str]] = {}
        n = 0
        for c in prog.mro(ci):
            for mname, fn in c.methods.items():
                for t in _ignore_tests(fn):
                    n += 1
                    # subject: the variable the key is computed from
                    key = inline_locals(fn, t.left)
                    roots = [x.id for x in ast.walk(key) if isinstance(x, ast.Name) and x.id != "self"]
                    subj = roots[0] if roots else None
                    forms.setdefault(canon_expr(fn, t.left, subj), []).append(f"{mname}@{t.lineno}")
        ok = len(forms) == 1 and n >= min_sites
        rep.add(rid, f"{cls}:every ignore-list test uses the same key for a class", ok,
                f"{n} tests, key forms: " + " | ".join(f"{k}  [{', '.join(v)}]" for k, v in forms.items()) +
                (": the forms differ for some classes (e.g. a class at global scope), so one artefact of the class is "
                 "suppressed and another is not" if len(forms) > 1 else ""), f"{ci.mod.rel}:0")
        if n < min_sites:
            raise AnalysisError(f"{rep.prop}/{rid}: {n} ignore tests in {cls}, {min_sites} expected")


def rule_ignore_dominates_matlab(ctx, rep: Report, rid="X2"):
    ci, prog = mw(ctx)
    _prepare_ignore_helpers(prog)
    fn = prog.method("MatlabWrapper", "wrap_instantiated_class")
    tests = [i for i in fn.body if isinstance(i, ast.If) and _ignore_tests(i.test if isinstance(i.test, ast.AST) else i)]
    tests = [i for i in fn.body if isinstance(i, ast.If) and any(True for _ in _ignore_tests(i.test))]
    ok = len(tests) == 1 and isinstance(tests[0].body[0], ast.Return)
    first_effect = None
    for st in fn.body:
        txt = unparse(st)
        if "_update_wrapper_id" in txt or "self.content.append" in txt or "self.wrap_class_" in txt or "self.class_comment" in txt \
                or "self.wrap_methods" in txt or "self.wrap_static_methods" in txt or "self.wrap_enum" in txt:
            first_effect = st
            break
    rep.add(rid, "wrap_instantiated_class:ignore test returns before any id is allocated or text/file entry produced",
            ok and first_effect is not None and tests[0].lineno < first_effect.lineno,
            f"ignore test at line {tests[0].lineno if tests else None}, first effect at line "
            f"{first_effect.lineno if first_effect is not None else None}", f"{ci.mod.rel}:{fn.lineno}")
    gp = prog.method("MatlabWrapper", "generate_preamble")
    loops = [l for l in gp.body if isinstance(l, ast.For) and unparse(l.iter) == "self.classes"]
    if len(loops) != 1:
        raise AnalysisError("generate_preamble: loop over self.classes not found")
    body = loops[0].body
    itest = [i for i in body if isinstance(i, ast.If) and any(True for _ in _ignore_tests(i.test))]
    ok2 = len(itest) == 1 and isinstance(itest[0].body[-1], ast.Continue)
    emits = [st for st in body if isinstance(st, (ast.AugAssign,)) or (isinstance(st, ast.Expr) and ".append(" in unparse(st))
             or (isinstance(st, ast.If) and st not in itest)]
    rep.add(rid, "generate_preamble:ignored class skipped before collector, clean-up entry, RTTI entry and typedef",
            ok2 and all(itest[0].lineno < e.lineno for e in emits) and bool(emits),
            f"ignore test line {itest[0].lineno if itest else None}; emissions at {[e.lineno for e in emits]}",
            f"{ci.mod.rel}:{gp.lineno}")


def rule_every_class_iteration_filtered(ctx, rep: Report, rid="X2"):
    """Every walk over the registered classes (`self.classes`, directly or through filter / sorted / a comprehension /
    a local bound to one of these) consults the ignore list before it emits anything: in the loop body, in the
    comprehension's condition, or in the predicate the classes are filtered with (lambda or helper method)."""
    ci, prog = mw(ctx)
    _prepare_ignore_helpers(prog)
    n = 0

    def mentions_classes(e) -> bool:
        return any(isinstance(a, ast.Attribute) and unparse(a) == "self.classes" for a in ast.walk(e))

    def tests_in_iterable(e) -> bool:
        if _ignore_tests(e):
            return True
        for c_ in ast.walk(e):
            if isinstance(c_, ast.Call):
                for a in list(c_.args) + [k.value for k in c_.keywords]:
                    if isinstance(a, ast.Attribute) and unparse(a.value) == "self":
                        h = prog.find_method(ci, a.attr)
                        if h is not None and _ignore_tests(h[1]):
                            return True
        return False
    for c in prog.mro(ci):
        for mname, fn in sorted(c.methods.items()):
            for x in ast.walk(fn):
                it = None
                if isinstance(x, ast.For):
                    src = inline_locals(fn, x.iter) if isinstance(x.iter, ast.Name) else x.iter
                    if not mentions_classes(src):
                        continue
                    it = x
                    tests = [t for st in x.body for t in _ignore_tests(st)]
                    first_emit = next((st for st in x.body if isinstance(st, (ast.AugAssign,)) or ".append(" in unparse(st)), None)
                    ok = (bool(tests) and (first_emit is None or tests[0].lineno <= first_emit.lineno)) or tests_in_iterable(src)
                elif isinstance(x, ast.comprehension):
                    src = inline_locals(fn, x.iter) if isinstance(x.iter, ast.Name) else x.iter
                    if not mentions_classes(src):
                        continue
                    # a comprehension that only filters / copies the list is judged where its result is walked
                    it = x
                    ok = any(True for cond in x.ifs for _ in _ignore_tests(cond)) or tests_in_iterable(src)
                    owner = parent(x)
                    st_ = stmt_of(owner) if owner is not None else None
                    if not ok and isinstance(st_, ast.Assign) and len(st_.targets) == 1 and isinstance(st_.targets[0], ast.Name) \
                            and isinstance(owner, (ast.ListComp, ast.GeneratorExp)) and isinstance(owner.elt, ast.Name):
                        continue
                if it is None:
                    continue
                n += 1
                rep.add(rid, f"{mname}:iteration over the registered classes applies the ignore list", ok,
                        "text is produced for every registered class without consulting the ignore list: an artefact of an "
                        "ignored class (e.g. its typedef, its Boost export) survives in the MEX source", f"{c.mod.rel}:{getattr(it, 'lineno', it.iter.lineno)}")
    if n < 1:
        raise AnalysisError(f"{rep.prop}/{rid}: no iteration over self.classes found")


def rule_cross_class_state_keyed_by_class(ctx, rep: Report, rid="X4"):
    """The only state shared between class blocks in the pybind generator is the docstring overload memory;
    its key must contain the class exactly as the emitter spells it (the full C++ name), so that blocks of
    different classes / instantiations never share a counter."""
    prog = ctx.prog
    ci = prog.cls("XMLDocParser")
    ex = prog.method("XMLDocParser", "extract_docstring")
    ps = func_params(ex)[1:]
    rebound = sorted(p for p in ps if local_assignments(ex).get(p))
    rep.add(rid, "extract_docstring:class / method / argument names are used as given (never normalised)", not rebound,
            f"parameter(s) {rebound} are re-assigned inside extract_docstring: distinct classes (e.g. two instantiations of "
            f"one template) can then map to the same overload-memory key, so wrapping or ignoring one changes the docstrings "
            f"of the other", f"{ci.mod.rel}:{ex.lineno}")
    call = next((c for c in walk_no_nested(ex) if isinstance(c, ast.Call) and unparse(c.func) == "self.determine_documenting_index"), None)
    args = [unparse(a) for a in call.args] if call else []
    rep.add(rid, "extract_docstring:the memory key receives the caller's class and method", args[:3] == ps[1:4], f"{args}",
            f"{ci.mod.rel}:{ex.lineno}")
    # the key under which the overload counter is kept spells the class, the method and the argument names as given
    ddi = prog.method("XMLDocParser", "determine_documenting_index")
    dps = func_params(ddi)[1:]
    keys = [n_.slice for n_ in walk_no_nested(ddi) if isinstance(n_, ast.Subscript) and unparse(n_.value) == "self._memory"]
    if not keys:
        raise AnalysisError("determine_documenting_index: no access to self._memory found")
    from .prog import inline_locals
    for kx in {unparse(k): k for k in keys}.values():
        kexp = inline_locals(ddi, kx)
        whole = set()
        if isinstance(kexp, ast.JoinedStr):
            whole = {v.value.id for v in kexp.values if isinstance(v, ast.FormattedValue) and isinstance(v.value, ast.Name)}
        elif isinstance(kexp, ast.Tuple):
            whole = {e.id for e in kexp.elts if isinstance(e, ast.Name)}
        derived = sorted({x.id for x in ast.walk(kexp) if isinstance(x, ast.Name) and x.id in dps} - whole)
        rebound2 = sorted(p_ for p_ in dps[:2] if local_assignments(ddi).get(p_))
        rep.add(rid, "determine_documenting_index:the counter key contains class and method exactly as given", set(dps[:2]) <= whole and not rebound2,
                f"key `{unparse(kexp)[:90]}`: taken whole {sorted(whole)}, only derived {derived}, re-assigned {rebound2}: a key built from a "
                f"shortened class name (e.g. its last component) makes unrelated classes with the same simple name share one overload "
                f"counter, so wrapping / ignoring one changes the docstrings of the other", f"{ci.mod.rel}:{kx.lineno}")
    pwc = prog.cls("PybindWrapper")
    wm = prog.method("PybindWrapper", "_wrap_method")
    from .rules_xml import docstring_source
    try:
        holder, _tpl, _e, _ok, body, pmap, _hc = docstring_source(ctx)
    except AnalysisError:
        # the docstring does not fill a {docstring} field (that is C17's business): look at the call itself
        body, pmap = wm, {}
    call = next((c for c in ast.walk(body) if isinstance(c, ast.Call) and isinstance(c.func, ast.Attribute) and c.func.attr == "extract_docstring"), None)
    cls_arg = pmap.get(unparse(call.args[1]), unparse(call.args[1])) if call is not None and len(call.args) >= 2 else None
    rep.add(rid, "_wrap_method:passes the class's full C++ name to the docstring lookup",
            cls_arg == func_params(wm)[2], f"class argument {cls_arg}", f"{pwc.mod.rel}:{wm.lineno}",
            nontrivial=False)


def rule_none_result_handled(ctx, rep: Report, rid="X3"):
    ci, prog = mw(ctx)
    n = 0
    for c in prog.mro(ci):
        for mname, fn in c.methods.items():
            for call in walk_no_nested(fn):
                if not (isinstance(call, ast.Call) and unparse(call.func) == "self.wrap_instantiated_class"):
                    continue
                n += 1
                p = parent(call)
                if not (isinstance(p, ast.Assign) and len(p.targets) == 1 and isinstance(p.targets[0], ast.Name)):
                    rep.add(rid, f"caller:{mname}:result of wrap_instantiated_class bound to a local and tested", False,
                            "the result (None for an ignored class) is used directly", f"{c.mod.rel}:{call.lineno}")
                    continue
                var = p.targets[0].id
                blk_parent = parent(p)
                bad = []
                for u in walk_no_nested(fn):
                    if isinstance(u, ast.Name) and u.id == var and isinstance(u.ctx, ast.Load) and u.lineno > p.lineno:
                        q = parent(u)
                        if isinstance(q, ast.Subscript) and q.value is u or isinstance(q, ast.Attribute):
                            # dereference: must be under a None test of var, and belong to this assignment's region
                            same_region = enclosing(u, (ast.If,)) is not None and any(
                                var in g and ("None" in g) for g, pol in guards_of(u, fn, include_exits=False))
                            # only consider uses that this assignment reaches (same enclosing branch)
                            if _same_branch(p, u) and not same_region:
                                bad.append(u.lineno)
                rep.add(rid, f"caller:{mname}@{_branch_tag(p, fn)}:None result (ignored class) tested before use", not bad,
                        f"`{var}` is subscripted at line(s) {bad} without a None test: ignoring such a class raises "
                        f"TypeError('NoneType' object is not subscriptable)", f"{c.mod.rel}:{call.lineno}")
    if n < 2:
        raise AnalysisError(f"{rep.prop}/{rid}: {n} callers of wrap_instantiated_class, 2 expected")
    fn = prog.method("MatlabWrapper", "wrap_instantiated_class")
    rets = [unparse(r.value) if r.value is not None else "None" for r in walk_no_nested(fn) if isinstance(r, ast.Return)]
    rep.add(rid, "wrap_instantiated_class:returns None exactly for an ignored class", rets.count("None") == 1, f"returns {rets}",
            f"{ci.mod.rel}:{fn.lineno}", nontrivial=False)


def _same_branch(assign: ast.AST, use: ast.AST) -> bool:
    blk = parent(assign)
    n = use
    while n is not None:
        if n is blk:
            # same list?
            for fld in ("body", "orelse"):
                lst = getattr(blk, fld, None)
                if isinstance(lst, list) and assign in lst:
                    x = use
                    while parent(x) is not blk:
                        x = parent(x)
                    return x in lst
            return True
        n = parent(n)
    return False


def _branch_tag(node, fn) -> str:
    gs = guards_of(node, fn, include_exits=False)
    return ("if " if gs and gs[-1][1] else "else of ") + gs[-1][0][:30] if gs else "top"


# ------------------------------------------------------------------------------------------
# C16 / Y1
def rule_file_separator(ctx, rep: Report, rid="Y1"):
    """The text handed to the parser is the files' texts with a line break after (or between) every one of them:
    found by following the argument of Module.parseString back to the file list - an accumulation loop that appends
    `<read text> + "\\n"`, or `"\\n".join(<texts>)`.  A concatenation that keeps only the line breaks the files happen to
    contain (`"".join(lines)`, fileinput, itertools.chain) lets a file that ends without one run into the next."""
    ci, prog = mw(ctx)
    fn = prog.method("MatlabWrapper", "wrap")
    files_p = func_params(fn)[1]
    parse = [c for c in walk_no_nested(fn) if isinstance(c, ast.Call) and unparse(c.func).endswith("Module.parseString")]
    # a parse of a constant text (`parseString("")` for an empty file list) reads no file
    parse = [c for c in parse if not (c.args and isinstance(c.args[0], ast.Constant))]
    file_loops = [l for l in walk_no_nested(fn) if isinstance(l, ast.For) and files_p in {x.id for x in ast.walk(l.iter) if isinstance(x, ast.Name)}]
    per_file = [c for c in parse if any(any(x is c for x in ast.walk(l)) for l in file_loops)]
    if per_file and len(per_file) == len(parse):
        # the other design: every file parsed by itself (nothing can fuse), the trees merged afterwards.  The merged
        # tree equals the tree of the concatenation only if the elements of every file hang below the *one* global
        # namespace that is wrapped: they have to be handed to the Namespace constructor (which re-parents the
        # children it is given); splicing content lists leaves the elements of later files pointing at the global
        # namespace of their own file, and every walk up the parent links (is_global_enum, qualified names) then
        # sees only that file
        ns = prog.cls("Namespace")
        ninit = prog.method("Namespace", "__init__")
        reparents = any(isinstance(st, ast.Assign) and isinstance(st.targets[0], ast.Attribute) and st.targets[0].attr == "parent"
                        and unparse(st.value) == "self" for st in ast.walk(ninit))
        built = [c for c in walk_no_nested(fn) if isinstance(c, ast.Call) and prog.resolve_class(c.func, ci.mod) is ns
                 and not any(any(x is c for x in ast.walk(l)) for l in file_loops)]
        spliced = [c for c in ast.walk(fn) if isinstance(c, ast.Call) and isinstance(c.func, ast.Attribute) and c.func.attr in ("extend", "append", "insert")
                   and unparse(c.func.value).endswith(".content")] + \
                  [a_ for a_ in ast.walk(fn) if isinstance(a_, ast.AugAssign) and unparse(a_.target).endswith(".content")
                   and any(any(x is a_ for x in ast.walk(l)) for l in file_loops)]
        ok_b = reparents and len(built) == 1 and not spliced
        rep.add(rid, "MatlabWrapper.wrap:files parsed one by one are merged below one global namespace (children re-parented)", ok_b,
                f"{len(per_file)} per-file parse call(s); merged by {'a Namespace(...) constructor call' if built else 'no constructor call'}"
                f"{', content lists spliced at line(s) ' + str(sorted({x.lineno for x in spliced})) if spliced else ''}: the top-level elements of every "
                f"file but the first keep the parent link of their own file's global namespace, so a class in a later file no longer sees a "
                f"global enum (or any other declaration) of an earlier file: wrapping the list differs from wrapping their concatenation",
                f"{ci.mod.rel}:{per_file[0].lineno}")
        return
    rep.add(rid, "MatlabWrapper.wrap:the concatenation is parsed once", len(parse) == 1, f"{len(parse)} parse calls",
            f"{ci.mod.rel}:{fn.lineno}", nontrivial=False)
    if not parse or not parse[0].args:
        raise AnalysisError("MatlabWrapper.wrap: call of Module.parseString not found")
    src = parse[0].args[0]
    ok, detail, loc_line = False, "", fn.lineno

    def has_nl(e) -> bool:
        return isinstance(e, ast.Constant) and isinstance(e.value, str) and "\n" in e.value
    if isinstance(src, ast.Name):
        var = src.id
        # (a) accumulation in a loop over the files
        loops = [l for l in walk_no_nested(fn) if isinstance(l, ast.For) and files_p in {x.id for x in ast.walk(l.iter) if isinstance(x, ast.Name)}]
        accs = [a_ for l in loops for a_ in ast.walk(l) if isinstance(a_, ast.AugAssign) and isinstance(a_.op, ast.Add)
                and isinstance(a_.target, ast.Name) and a_.target.id == var]
        joins = [j for st in walk_no_nested(fn) if isinstance(st, ast.Assign) and len(st.targets) == 1 and isinstance(st.targets[0], ast.Name)
                 and st.targets[0].id == var for j in ast.walk(st.value)
                 if isinstance(j, ast.Call) and isinstance(j.func, ast.Attribute) and j.func.attr == "join" and isinstance(j.func.value, ast.Constant)]
        if accs:
            v = accs[0].value
            parts = []

            def flat(x):
                if isinstance(x, ast.BinOp) and isinstance(x.op, ast.Add):
                    flat(x.left)
                    flat(x.right)
                else:
                    parts.append(x)
            flat(v)
            sep_uncond = any(has_nl(x) for x in parts) and not guards_of(accs[0], fn, include_exits=False)
            ok = sep_uncond
            detail = f"accumulated as `{unparse(accs[0])}`"
            loc_line = accs[0].lineno
        elif joins:
            j = joins[0]
            ok = has_nl(j.func.value)
            detail = f"joined with {unparse(j.func.value)} over `{unparse(j.args[0])[:50] if j.args else ''}`"
            loc_line = j.lineno
        else:
            detail = f"`{var}` is not built by a loop over `{files_p}` or a join"
    elif isinstance(src, ast.Call) and isinstance(src.func, ast.Attribute) and src.func.attr == "join":
        ok = has_nl(src.func.value)
        detail = f"joined with {unparse(src.func.value)}"
        loc_line = src.lineno
    else:
        detail = f"parsed text is `{unparse(src)[:60]}`"
    rep.add(rid, "MatlabWrapper.wrap:file contents are separated by a line break before parsing", ok,
            f"{detail}: no line break is put between the files, so the text of one file runs straight into the next and a first file ending in a "
            f"`//` comment (or in the middle of a token) swallows / fuses with the next file's first declaration",
            f"{ci.mod.rel}:{loc_line}")


class _Emit:
    """An emission statement seen as `<accumulator> += <value>` whatever its spelling (`+=` or `.append(...)`)."""

    def __init__(self, st, value):
        self.st, self.value, self.lineno = st, value, st.lineno


def _emissions(node):
    """(statement, emitted value, accumulator name) for `acc += v` and `acc.append(v)` below node."""
    for st in ast.walk(node):
        if isinstance(st, ast.AugAssign) and isinstance(st.op, ast.Add) and isinstance(st.target, ast.Name):
            yield st, st.value, st.target.id
        elif isinstance(st, ast.Expr) and isinstance(st.value, ast.Call) and isinstance(st.value.func, ast.Attribute) \
                and st.value.func.attr == "append" and isinstance(st.value.func.value, ast.Name) and len(st.value.args) == 1:
            yield st, st.value.args[0], st.value.func.value.id


# ==========================================================================================
# C10
def _preamble_decided_by_evaluation(ctx) -> bool:
    from .rules_ids import preamble_verdict
    try:
        return len(preamble_verdict(ctx)) == 2
    except AnalysisError:
        return False


def rule_preamble_pairing(ctx, rep: Report, rid="T1"):
    ci, prog = mw(ctx)
    gp = prog.method("MatlabWrapper", "generate_preamble")
    if _preamble_decided_by_evaluation(ctx):
        from .rules_ids import preamble_verdict
        v = preamble_verdict(ctx)
        probs = [p for ps in v.values() for p in ps]
        rep.add(rid, "preamble:collector, clean-up block and RTTI entry per class (generate_preamble run on sample classes)", not probs,
                f"{probs[:3]}: a collector without its clean-up entry leaks at unload, a clean-up entry without collector does not compile, a virtual class "
                f"that is not registered is handed back to MATLAB as its base class", f"{ci.mod.rel}:{gp.lineno}")
        _preamble_add_class_part(ctx, rep, rid)
        return
    loops = [l for l in gp.body if isinstance(l, ast.For) and unparse(l.iter) == "self.classes"]
    if len(loops) != 1:
        raise AnalysisError("generate_preamble: loop over self.classes not found")
    loop = loops[0]
    cvar = loop.target.id
    fo = Folder(prog, ci.mod, gp, ci)
    frag = {}
    for st, val, acc_ in _emissions(loop):
        if isinstance(val, ast.Call) and isinstance(val.func, ast.Attribute) and val.func.attr == "format":
            src = unparse(val.func.value)
            gs = [(t, pol) for t, pol in guards_of(st, gp, include_exits=True)]      # an earlier `if ..: continue` is a condition too
            frag[src] = (_Emit(st, val), gs, acc_)
    tc = frag.get("WrapperTemplate.typdef_collectors")
    do = frag.get("WrapperTemplate.delete_obj")
    rep.add(rid, "preamble:collector declaration and clean-up fragment emitted under identical conditions for every class",
            tc is not None and do is not None and tc[1] == do[1] and all("ignore_classes" in t for t, _ in tc[1]),
            f"collector under {tc[1] if tc else None}, clean-up under {do[1] if do else None}: a collector without its "
            f"clean-up entry leaks at unload; a clean-up entry without collector does not compile", f"{ci.mod.rel}:{loop.lineno}")
    if tc and do:
        t1, t2 = fo.fold(tc[0].value), fo.fold(do[0].value)
        k1 = {s.key: unparse(s.val) for s in t1.slots()} if t1 else {}
        k2 = {s.key: unparse(s.val) for s in t2.slots()} if t2 else {}
        rep.add(rid, "preamble:both fragments are named after the same class", k1.get("class_name") is not None
                and k1.get("class_name") == k2.get("class_name"), f"{k1} vs {k2}", f"{ci.mod.rel}:{loop.lineno}")
    # RTTI
    rtti = [st for st, val, acc_ in _emissions(loop) if "typeid" in unparse(val)]
    ok = len(rtti) == 1 and tc is not None and guards_of(rtti[0], gp, include_exits=True) == tc[1] + [(f"{cvar}.is_virtual", True)]
    rep.add(rid, "preamble:RTTI registry entry iff the class is virtual", ok,
            f"guards {[guards_of(r, gp, include_exits=True) for r in rtti]} (an earlier `continue` in the loop body counts): a virtual class that is not "
            f"registered is handed back to MATLAB as its base class", f"{ci.mod.rel}:{loop.lineno}")
    # the accumulated fragments reach their templates
    txt = unparse(gp)
    rep.add(rid, "preamble:clean-up fragments are spliced into _deleteAllObjects, RTTI lines into the registry function",
            "WrapperTemplate.delete_all_objects.format(delete_objs=" in txt.replace(" ", "").replace("\n", "").replace("delete_objs=delete_objs", "delete_objs=")
            or "delete_all_objects.format(" in txt, "", f"{ci.mod.rel}:{gp.lineno}", nontrivial=False)
    _preamble_add_class_part(ctx, rep, rid)


def _preamble_add_class_part(ctx, rep: Report, rid: str):
    ci, prog = mw(ctx)
    # add_class for every instantiated class at every depth
    wn = prog.method("MatlabWrapper", "wrap_namespace")
    br = None
    for i in ast.walk(wn):
        if isinstance(i, ast.If) and isinstance(i.test, ast.Call) and unparse(i.test.func) == "isinstance" \
                and "InstantiatedClass" in unparse(i.test.args[1]):
            br = i
    ok = br is not None and isinstance(br.body[0], ast.Expr) and unparse(br.body[0].value.func) == "self.add_class" \
        and unparse(br.body[0].value.args[0]) == unparse(br.test.args[0])
    rep.add(rid, "every instantiated class is registered for the preamble before anything else happens to it", ok,
            "self.add_class(element) must be the first, unconditional statement of the class branch", f"{ci.mod.rel}:{wn.lineno}")
    rec = [c for c in walk_no_nested(wn) if isinstance(c, ast.Call) and unparse(c.func) == "self.wrap_namespace"]
    rep.add(rid, "nested namespaces are descended into", len(rec) == 1 and
            any(isinstance(i, ast.If) and "Namespace" in unparse(i.test) and any(rec[0] is c for c in ast.walk(i)) for i in ast.walk(wn)),
            "", f"{ci.mod.rel}:{wn.lineno}", nontrivial=False)
    ac = prog.method("MatlabWrapper", "add_class")
    rep.add(rid, "add_class:appends each class once", "self.classes.append" in unparse(ac) and "is None" in unparse(ac), "",
            f"{ci.mod.rel}:{ac.lineno}", nontrivial=False)


def rule_enum_numbering(ctx, rep: Report, rid="T2"):
    ci, prog = mw(ctx)
    fn = prog.method("MatlabWrapper", "wrap_enum")
    p = func_params(fn)[1]
    comps = [c for c in ast.walk(fn) if isinstance(c, (ast.ListComp, ast.GeneratorExp))]
    ok = False
    detail = ""
    for c in comps:
        g = c.generators[0]
        it = unparse(g.iter).replace(" ", "")
        if it.startswith("enumerate(") and isinstance(g.target, ast.Tuple):
            iv, ev = [t.id for t in g.target.elts]
            elt = c.elt
            if isinstance(elt, ast.JoinedStr):
                fv = [unparse(v.value) for v in elt.values if isinstance(v, ast.FormattedValue)]
                lit = "".join(v.value if isinstance(v, ast.Constant) else "@" for v in elt.values)
                ok = it == f"enumerate({p}.enumerators)" and fv == [f"{ev}.name", iv] and lit == "@(@)" and not g.ifs
                detail = f"{unparse(c)[:90]}"
    rep.add(rid, "enum:enumerators numbered 0..n-1 in declared order", ok, detail, f"{ci.mod.rel}:{fn.lineno}")
    fo = Folder(prog, ci.mod, fn, ci)
    tpl = next((fo.fold(st.value) for st in walk_no_nested(fn) if isinstance(st, ast.Assign)
                and isinstance(st.value, ast.Call) and unparse(st.value.func) == "textwrap.dedent"), None)
    lit = " ".join(tpl.literal("@").split()) if tpl else ""
    rep.add(rid, "enum:classdef <Name> < uint32 with an enumeration block", lit.startswith("classdef {0} < uint32 enumeration {1} end end"),
            lit[:70], f"{ci.mod.rel}:{fn.lineno}")


PKG_FORM = "''.join(['+' + _x + '/' for _x in _NS.full_namespaces()[1:]])[:-1]"


def _combine_defs(fn, e: ast.AST) -> ast.AST:
    """x = A ; x += B   ->   A + B   (the only multi-definition shape the path builders use)."""
    if isinstance(e, ast.Name):
        sts = sorted(local_assignments(fn).get(e.id, []), key=lambda st: st.lineno)
        if len(sts) == 2 and isinstance(sts[0], ast.Assign) and isinstance(sts[1], ast.AugAssign) and isinstance(sts[1].op, ast.Add) \
                and parent(sts[0]) is parent(sts[1]):
            return ast.BinOp(left=sts[0].value, op=ast.Add(), right=sts[1].value)
    return e


def _pkg_norm(fn, e: ast.AST) -> str:
    x = inline_locals(fn, _combine_defs(fn, e))
    txt = unparse(x)
    # rename comprehension variable and the namespace object
    t = ast.parse(txt, mode="eval").body
    for n in ast.walk(t):
        if isinstance(n, (ast.ListComp, ast.GeneratorExp)):
            v = n.generators[0].target.id if isinstance(n.generators[0].target, ast.Name) else None
            for m in ast.walk(n):
                if isinstance(m, ast.Name) and m.id == v:
                    m.id = "_x"
    for n in ast.walk(t):
        if isinstance(n, ast.Call) and isinstance(n.func, ast.Attribute) and n.func.attr in ("full_namespaces", "namespaces") \
                and isinstance(n.func.value, ast.Name):
            n.func.value.id = "_NS"
        if isinstance(n, ast.Call) and isinstance(n.func, ast.Attribute) and n.func.attr in ("full_namespaces",) \
                and isinstance(n.func.value, ast.Attribute) and n.func.value.attr == "parent":
            n.func.value = ast.Name(id="_NS", ctx=ast.Load())
    out = unparse(t)
    out = out.replace("f'+{_x}/'", "'+' + _x + '/'")
    return out


class _PathEval:
    """Evaluates a path-building expression of the MATLAB wrapper on a *sample* namespace list (the analyser's own
    interpreter over strings and lists; no repository code runs): `<x>.full_namespaces()` / `<x>.namespaces()` stand for
    the sample list, `<x>.name` for the sample class name; locals are read through their definitions."""

    class Unknown(Exception):
        pass

    def __init__(self, fn, ns: List[str], cls_name: str = "K", prog=None, ci=None, depth=2):
        self.fn, self.ns, self.cls_name, self.prog, self.ci, self.depth = fn, ns, cls_name, prog, ci, depth

    def param_values(self, name: str) -> list:
        """What the callers inside the class pass for a parameter, evaluated on the sample (the default where a caller
        passes nothing): one value per distinct caller context."""
        if self.prog is None or self.ci is None or self.depth <= 0 or name not in func_params(self.fn):
            raise self.Unknown(f"parameter {name}")
        a_ = self.fn.args
        pos = [x.arg for x in a_.posonlyargs + a_.args]
        defaults = dict(zip(pos[len(pos) - len(a_.defaults):], a_.defaults))
        vals = []
        for k in self.prog.mro(self.ci):
            for g in k.methods.values():
                for c in walk_no_nested(g):
                    if isinstance(c, ast.Call) and isinstance(c.func, ast.Attribute) and c.func.attr == self.fn.name and unparse(c.func.value) == "self":
                        try:
                            b = bind_call(self.fn, c, drop_self=True)
                        except AnalysisError:
                            raise self.Unknown(f"parameter {name}")
                        if name in b:
                            v = _PathEval(g, self.ns, self.cls_name, self.prog, self.ci, self.depth - 1).ev(b[name])
                        elif name in defaults:
                            v = self.ev(defaults[name])
                        else:
                            raise self.Unknown(f"parameter {name}")
                        if v not in vals:
                            vals.append(v)
        if not vals:
            raise self.Unknown(f"parameter {name}")
        return vals

    def ev(self, e, env=None):
        env = env or {}
        if isinstance(e, (ast.Attribute, ast.Call)) and unparse(e) in env:
            return env[unparse(e)]            # a sample given for this very expression (`self.top_module_namespaces`)
        if isinstance(e, ast.Constant) and isinstance(e.value, (str, int)) or (isinstance(e, ast.Constant) and e.value is None):
            return e.value
        if isinstance(e, ast.Name):
            if e.id in env:
                return env[e.id]
            v = _combine_defs(self.fn, e)
            if v is e:
                v = value_def(self.fn, e.id)
            if v is None and any(x is e for x in ast.walk(self.fn)):
                # bound in several branches: the one binding that reaches this read
                from .rules_alias import reaching_defs
                defs, _ = reaching_defs(self.fn, e.id, e)
                if len(defs) == 1 and isinstance(defs[0], ast.Assign) and len(defs[0].targets) == 1 and isinstance(defs[0].targets[0], ast.Name):
                    v = defs[0].value
            if v is None:
                raise self.Unknown(f"parameter {e.id}" if e.id in func_params(self.fn) else f"name {e.id}")
            return self.ev(v, env)
        if isinstance(e, (ast.List, ast.Tuple)):
            return [self.ev(x, env) for x in e.elts]
        if isinstance(e, ast.Attribute) and e.attr == "name":
            return self.cls_name
        if isinstance(e, ast.Call) and isinstance(e.func, ast.Attribute) and e.func.attr in ("full_namespaces", "namespaces") and not e.args:
            return list(self.ns)
        if isinstance(e, ast.Call) and isinstance(e.func, ast.Attribute) and e.func.attr == "join" and len(e.args) == 1:
            sep, items = self.ev(e.func.value, env), self.ev(e.args[0], env)
            if not isinstance(sep, str) or not isinstance(items, list) or not all(isinstance(x, str) for x in items):
                raise self.Unknown("join of non-strings")
            return sep.join(items)
        if isinstance(e, ast.Call) and isinstance(e.func, ast.Attribute) and e.func.attr == "format" \
                and not any(isinstance(a_, ast.Starred) for a_ in e.args) and all(k.arg for k in e.keywords):
            tpl = self.ev(e.func.value, env)
            if not isinstance(tpl, str):
                raise self.Unknown("format of a non-string")
            args_ = [self.ev(a_, env) for a_ in e.args]
            kw_ = {k.arg: self.ev(k.value, env) for k in e.keywords}
            if not all(isinstance(x, (str, int)) for x in list(args_) + list(kw_.values())):
                raise self.Unknown("format of non-text values")
            try:
                return tpl.format(*args_, **kw_)          # the analyser's own sample values, formatted by the analyser
            except (IndexError, KeyError, ValueError):
                raise self.Unknown("format fields do not match the arguments")
        if isinstance(e, ast.Call) and unparse(e.func) in ("osp.join", "os.path.join", "posixpath.join") and e.args and not e.keywords:
            # posix semantics, written out: empty components vanish, an absolute component restarts the path
            parts = [self.ev(a_, env) for a_ in e.args]
            if not all(isinstance(x, str) for x in parts):
                raise self.Unknown("path join of non-strings")
            out = ""
            for x in parts:
                if x.startswith("/"):
                    out = x
                elif out == "" or out.endswith("/"):
                    out += x
                else:
                    out += "/" + x
            return out
        if isinstance(e, ast.Call) and isinstance(e.func, ast.Name) and e.func.id in ("list", "tuple", "str") and len(e.args) == 1:
            v = self.ev(e.args[0], env)
            return str(v) if e.func.id == "str" else list(v)
        if isinstance(e, ast.Call) and isinstance(e.func, ast.Name) and e.func.id == "len" and len(e.args) == 1:
            return len(self.ev(e.args[0], env))
        if isinstance(e, (ast.ListComp, ast.GeneratorExp)) and len(e.generators) == 1 and isinstance(e.generators[0].target, ast.Name):
            g = e.generators[0]
            out = []
            for item in self.ev(g.iter, env):
                env2 = dict(env, **{g.target.id: item})
                if all(self.ev(c, env2) for c in g.ifs):
                    out.append(self.ev(e.elt, env2))
            return out
        if isinstance(e, ast.JoinedStr):
            out = ""
            for v in e.values:
                out += v.value if isinstance(v, ast.Constant) else str(self.ev(v.value, env))
            return out
        if isinstance(e, ast.BinOp) and isinstance(e.op, ast.Add):
            l, r = self.ev(e.left, env), self.ev(e.right, env)
            if type(l) is not type(r):
                raise self.Unknown("+ of different kinds")
            return l + r
        if isinstance(e, ast.BinOp) and isinstance(e.op, ast.Sub):
            return self.ev(e.left, env) - self.ev(e.right, env)
        if isinstance(e, ast.UnaryOp) and isinstance(e.op, ast.USub):
            return -self.ev(e.operand, env)
        if isinstance(e, ast.Subscript):
            base = self.ev(e.value, env)
            if isinstance(e.slice, ast.Slice):
                lo = self.ev(e.slice.lower, env) if e.slice.lower is not None else None
                hi = self.ev(e.slice.upper, env) if e.slice.upper is not None else None
                st = self.ev(e.slice.step, env) if e.slice.step is not None else None
                return base[lo:hi:st]
            i = self.ev(e.slice, env)
            try:
                return base[i]
            except Exception:
                raise self.Unknown("index out of range")
        if isinstance(e, ast.Compare) and len(e.ops) == 1:
            l, r = self.ev(e.left, env), self.ev(e.comparators[0], env)
            op = e.ops[0]
            try:
                res = {ast.Eq: lambda: l == r, ast.NotEq: lambda: l != r, ast.In: lambda: l in r, ast.NotIn: lambda: l not in r,
                       ast.Lt: lambda: l < r, ast.LtE: lambda: l <= r, ast.Gt: lambda: l > r, ast.GtE: lambda: l >= r}.get(type(op))
                if res is None:
                    raise self.Unknown("comparison")
                return res()
            except TypeError:
                raise self.Unknown("comparison of different kinds")
        if isinstance(e, ast.UnaryOp) and isinstance(e.op, ast.Not):
            return not self.ev(e.operand, env)
        if isinstance(e, ast.BoolOp):
            v = None
            for x in e.values:
                v = self.ev(x, env)
                if bool(v) != isinstance(e.op, ast.And):
                    return v
            return v
        if isinstance(e, ast.IfExp):
            return self.ev(e.body, env) if self.ev(e.test, env) else self.ev(e.orelse, env)
        raise self.Unknown(f"{type(e).__name__} `{unparse(e)[:40]}`")


class _Return(Exception):
    def __init__(self, value):
        self.value = value


class _LoopCtl(Exception):
    def __init__(self, kind):
        self.kind = kind


class ClassTok:
    """Stands for a class of the analysed program where the interpreted code handles classes as values."""

    def __init__(self, name):
        self.name = name

    def __eq__(self, other):
        return isinstance(other, ClassTok) and other.name == self.name

    def __hash__(self):
        return hash(("ClassTok", self.name))


class _Raised(Exception):
    """The interpreted function raised."""


# methods of plain sample values (lists, dicts, strings of the analyser's own making) the interpreter may call
_VALUE_METHODS = {
    list: {"append", "insert", "extend", "index", "copy", "count", "pop", "reverse", "sort", "remove", "clear"},
    dict: {"get", "setdefault", "values", "keys", "items", "pop", "update", "copy"},
    str: {"split", "rsplit", "join", "startswith", "endswith", "replace", "upper", "lower", "strip", "lstrip", "rstrip", "format", "capitalize", "find",
          "rfind", "isidentifier", "isdigit", "title", "partition", "rpartition", "count", "index"},
    tuple: {"index", "count"},
    set: {"add", "discard", "union", "intersection", "difference", "copy", "update"},
}
_VALUE_METHODS = dict(_VALUE_METHODS, **{"__all__": set().union(*_VALUE_METHODS.values())})


SAMPLE_CWD = "/<working directory>"


class SampleObj(dict):
    """A sample object for mini_exec: attributes are the dict's entries (`__kind__` names its class for isinstance)."""
    __hash__ = object.__hash__

    def __bool__(self):
        return True

    def __eq__(self, other):
        return self is other

    def __ne__(self, other):
        return self is not other

    def __getattr__(self, name):
        # `'{arg.default}'.format(arg=arg)`: format fields read attributes off the sample object
        if name.startswith("__") or name not in self:
            raise AttributeError(name)
        return self[name]


class SampleElem(SampleObj):
    """A sample xml.etree Element: like the real one it is *falsy* when it has no child elements."""

    def __bool__(self):
        return bool(self.get("children"))


def sample_elem(tag: str, text: Optional[str] = None, *children, **attrib):
    e = SampleElem(__kind__="Element", tag=tag, text=text, children=list(children), attrib=dict(attrib), tail=None)
    e["find"] = lambda path, e=e: next((c for c in e["children"] if c["tag"] == path.lstrip("./")), None)
    e["findall"] = lambda path, e=e: [c for c in e["children"] if c["tag"] == path.lstrip("./")]
    e["get"] = lambda k, d=None, e=e: e["attrib"].get(k, d)
    return e


def _sample_copy(v, deep: bool, memo=None):
    """copy.copy / copy.deepcopy of sample values (stand-in callables are shared)."""
    memo = {} if memo is None else memo
    if id(v) in memo:
        return memo[id(v)]
    if isinstance(v, SampleObj):
        new = type(v)()
        memo[id(v)] = new
        for k, x in v.items():
            new[k] = _sample_copy(x, True, memo) if deep and not callable(x) else x
        return new
    if isinstance(v, list):
        new = []
        memo[id(v)] = new
        new.extend((_sample_copy(x, True, memo) if deep else x) for x in v)
        return new
    if isinstance(v, dict):
        new = {}
        memo[id(v)] = new
        for k, x in v.items():
            new[k] = _sample_copy(x, True, memo) if deep else x
        return new
    if isinstance(v, (tuple, set)):
        return type(v)((_sample_copy(x, True, memo) if deep else x) for x in v)
    return v


def program_classes(prog, names) -> Dict[str, Dict[str, object]]:
    """{class name: {method name: FunctionDef (own and inherited), '__bases__': [...]}} for the interpreter's object model."""
    out: Dict[str, Dict[str, object]] = {}
    for nm in names:
        ci = prog.cls(nm)
        if ci is None:
            continue
        d: Dict[str, object] = {}
        for c in reversed(prog.mro(ci)):
            d.update(c.methods)
        d["__bases__"] = [b.qual.split(".")[-1] for b in prog.mro(ci)[1:]]
        out[nm.split(".")[-1]] = d
    return out


def mini_exec(fn: ast.FunctionDef, args: Dict[str, object], budget: int = 2000, methods: Optional[Dict[str, ast.FunctionDef]] = None, _depth: int = 0,
              functions: Optional[Dict[str, ast.FunctionDef]] = None, ctors: Optional[Set[str]] = None,
              classes: Optional[Dict[str, Dict[str, ast.FunctionDef]]] = None, consts: Optional[Dict[str, ast.expr]] = None):
    """Runs a small, side-effect-free function of the analysed program on *sample* arguments with the analyser's own
    interpreter (assignments to names, if / for / while-free loops over lists and ranges, return, and the expression forms
    of _PathEval plus range / min / max / zip / enumerate / all / any).  Anything else raises _PathEval.Unknown."""
    pe = _PathEval(fn, [])
    env: Dict[str, object] = dict(args)
    steps = [0]

    def run_method(m_, recv_, call_):
        pos_ = []
        for ax in call_.args:
            if isinstance(ax, ast.Starred):
                pos_.extend(ev(ax.value))
            else:
                pos_.append(ev(ax))
        return invoke(m_, recv_, pos_, {k.arg: ev(k.value) for k in call_.keywords if k.arg})

    def invoke(m_, recv_, pos_, kws_):
        ps_ = [a.arg for a in m_.args.args]
        decos_ = {d_.id for d_ in m_.decorator_list if isinstance(d_, ast.Name)}
        if "staticmethod" in decos_:
            cargs_, rest_ = {}, ps_
        else:
            cargs_, rest_ = {ps_[0]: recv_}, ps_[1:]
        if len(pos_) > len(rest_):
            raise _PathEval.Unknown(f"too many arguments for {m_.name}")
        cargs_.update(zip(rest_, pos_))
        cargs_.update(kws_)
        for p_, d_ in zip(ps_[len(ps_) - len(m_.args.defaults):], m_.args.defaults):
            if p_ not in cargs_:
                cargs_[p_] = ev(d_)
        for a_, d_ in zip(m_.args.kwonlyargs, m_.args.kw_defaults):
            if a_.arg not in cargs_ and d_ is not None:
                cargs_[a_.arg] = ev(d_)
        missing_ = [p_ for p_ in ps_ if p_ not in cargs_]
        if missing_:
            raise _PathEval.Unknown(f"call of {m_.name} without {missing_}")
        steps[0] += 5
        if steps[0] > budget:
            raise _PathEval.Unknown("too many steps")
        return mini_exec(m_, cargs_, budget, methods, _depth + 1, functions, ctors, classes, consts)

    def obj_text(v_):
        """str() of a sample object of a modelled class: its own __str__ / __repr__."""
        if isinstance(v_, SampleObj) and classes and v_.get("__kind__") in classes:
            for special_ in ("__str__", "__repr__"):
                m2_ = classes[v_["__kind__"]].get(special_)
                if isinstance(m2_, ast.FunctionDef):
                    return mini_exec(m2_, {m2_.args.args[0].arg: v_}, budget, methods, _depth + 1, functions, ctors, classes, consts)
        raise _PathEval.Unknown("str() of a sample object")

    def truth(v):
        """bool(v) as Python decides it: an object of the program follows its class's __bool__, else __len__, else is true."""
        if isinstance(v, SampleObj) and not isinstance(v, SampleElem):
            for special in ("__bool__", "__len__"):
                if special in v and callable(v[special]):
                    return bool(v[special]())
                if classes and v.get("__kind__") in classes and isinstance(classes[v["__kind__"]].get(special), ast.FunctionDef):
                    m2_ = classes[v["__kind__"]][special]
                    return bool(mini_exec(m2_, {m2_.args.args[0].arg: v}, budget, methods, _depth + 1, functions, ctors, classes, consts))
            return True
        return bool(v)

    def obj_eq(a, b):
        """a == b as Python decides it: an object of the program follows its class's __eq__ (looked up on the left operand first)."""
        for x, y in ((a, b), (b, a)):
            if isinstance(x, SampleObj) and not isinstance(x, SampleElem) and classes and x.get("__kind__") in classes \
                    and isinstance(classes[x["__kind__"]].get("__eq__"), ast.FunctionDef):
                m2_ = classes[x["__kind__"]]["__eq__"]
                ps_ = [a_.arg for a_ in m2_.args.args]
                r_ = mini_exec(m2_, {ps_[0]: x, ps_[1]: y}, budget, methods, _depth + 1, functions, ctors, classes, consts)
                if r_ is not NotImplemented:
                    return truth(r_)
        if type(a) is type(b) and type(a) in (list, tuple) and any(isinstance(x, SampleObj) for x in list(a) + list(b)):
            return len(a) == len(b) and all(x is y or obj_eq(x, y) for x, y in zip(a, b))
        return a == b

    def obj_in(a, seq):
        if isinstance(seq, (list, tuple)) and (isinstance(a, SampleObj) or any(isinstance(x, SampleObj) for x in seq)):
            return any(x is a or obj_eq(x, a) for x in seq)
        return a in seq

    def ev(e):
        if isinstance(e, ast.Attribute):
            try:
                base = ev(e.value)
            except _PathEval.Unknown:
                base = None
            if isinstance(base, SampleObj):
                if e.attr not in base:
                    if classes and base.get("__kind__") in classes and isinstance(classes[base["__kind__"]].get(e.attr), ast.FunctionDef):
                        m3_ = classes[base["__kind__"]][e.attr]
                        if any(unparse(d_) in ("property", "cached_property", "functools.cached_property") for d_ in m3_.decorator_list):
                            return invoke(m3_, base, [], {})           # a property: reading it runs it
                        return lambda *a_, **k_: invoke(m3_, base, list(a_), dict(k_))       # a method taken as a value
                    if base.get("__complete__"):
                        # the sample carries every attribute an object of its class has: a missing one is Python's AttributeError
                        raise _Raised(f"AttributeError: '{base.get('__kind__')}' object has no attribute '{e.attr}'")
                    raise _PathEval.Unknown(f"attribute {e.attr} of a sample object")
                return base[e.attr]
        if isinstance(e, ast.Call) and isinstance(e.func, ast.Attribute):
            # a sample object may carry a stand-in for one of its methods (a function of the analyser)
            try:
                recv0 = ev(e.func.value)
            except _PathEval.Unknown:
                recv0 = None
            if isinstance(recv0, SampleObj) and e.func.attr in recv0 and callable(recv0[e.func.attr]) and not isinstance(recv0[e.func.attr], (SampleObj, ClassTok)):
                return recv0[e.func.attr](*[ev(a_) for a_ in e.args], **{k.arg: ev(k.value) for k in e.keywords if k.arg})
        if classes and isinstance(e, ast.Call) and _depth < 14:
            # the object model of the program: `K(...)` builds a sample object of class K by running K.__init__, `obj.m(...)` runs the
            # method of obj's class, `K.m(...)` a static / class method
            leaf_ = e.func.attr if isinstance(e.func, ast.Attribute) else (e.func.id if isinstance(e.func, ast.Name) else None)
            owner_ = e.func.value.id if isinstance(e.func, ast.Attribute) and isinstance(e.func.value, ast.Name) else None
            if leaf_ in classes and not (isinstance(e.func, ast.Name) and e.func.id in env) and not (ctors and leaf_ in ctors) and \
                    (isinstance(e.func, ast.Name) or (owner_ is not None and owner_ not in env and owner_ not in classes)):
                obj_ = SampleObj(__kind__=leaf_, __bases__=list(classes[leaf_].get("__bases__", ())))
                init_ = classes[leaf_].get("__init__")
                if init_ is not None:
                    run_method(init_, obj_, e)
                return obj_
            if owner_ in classes and owner_ not in env and isinstance(classes[owner_].get(leaf_), ast.FunctionDef):
                return run_method(classes[owner_][leaf_], ClassTok(owner_), e)
            if isinstance(e.func, ast.Attribute):
                try:
                    recv_k = ev(e.func.value)
                except _PathEval.Unknown:
                    recv_k = None
                if isinstance(recv_k, SampleObj) and recv_k.get("__kind__") in classes and isinstance(classes[recv_k["__kind__"]].get(e.func.attr), ast.FunctionDef) \
                        and not (e.func.attr in recv_k and callable(recv_k[e.func.attr])):
                    return run_method(classes[recv_k["__kind__"]][e.func.attr], recv_k, e)
        if isinstance(e, ast.Call) and unparse(e.func) in ("copy.copy", "copy.deepcopy", "deepcopy") and len(e.args) == 1 and \
                not (isinstance(e.func, ast.Name) and e.func.id in env):
            return _sample_copy(ev(e.args[0]), deep=not unparse(e.func).endswith("copy.copy"))
        if isinstance(e, ast.Call) and isinstance(e.func, ast.Attribute) and methods and e.func.attr in methods and _depth < 12:
            try:
                recv = ev(e.func.value)
            except _PathEval.Unknown:
                recv = None
            if isinstance(recv, SampleObj):
                m = methods[e.func.attr]
                ps = [a.arg for a in m.args.args]
                if any(isinstance(d_, ast.Name) and d_.id == "staticmethod" for d_ in m.decorator_list):
                    call_args = {}
                    rest = ps
                else:
                    call_args = {ps[0]: recv}
                    rest = ps[1:]
                for pn, ax in zip(rest, e.args):
                    call_args[pn] = ev(ax)
                for p_, d_ in zip(ps[len(ps) - len(m.args.defaults):], m.args.defaults):
                    if p_ not in call_args and not any(k.arg == p_ for k in e.keywords):
                        call_args[p_] = ev(d_)
                for k in e.keywords:
                    if k.arg:
                        call_args[k.arg] = ev(k.value)
                return mini_exec(m, call_args, budget, methods, _depth + 1, functions, ctors, classes, consts)
        if isinstance(e, ast.Call) and isinstance(e.func, ast.Name) and functions and e.func.id in functions and _depth < 12:
            # a function of the program called by name (a nested helper sees the variables of the function around it)
            g_ = functions[e.func.id]
            ps_ = [a.arg for a in g_.args.args]
            call_env = {k: v for k, v in env.items() if k not in ps_}
            for pn, ax in zip(ps_, e.args):
                call_env[pn] = ev(ax)
            for k in e.keywords:
                if k.arg:
                    call_env[k.arg] = ev(k.value)
            if any(p_ not in call_env for p_ in ps_[:len(ps_) - len(g_.args.defaults)]):
                raise _PathEval.Unknown(f"call of {e.func.id} with missing arguments")
            for p_, d_ in zip(ps_[len(ps_) - len(g_.args.defaults):], g_.args.defaults):
                if p_ not in call_env:
                    call_env[p_] = ev(d_)
            steps[0] += 5
            if steps[0] > budget:
                raise _PathEval.Unknown("too many steps")
            return mini_exec(g_, call_env, budget, methods, _depth + 1, functions, ctors, classes, consts)
        if isinstance(e, ast.Call) and ctors and (e.func.attr if isinstance(e.func, ast.Attribute) else getattr(e.func, "id", None)) in ctors:
            # building a node of the program: recorded, not executed
            leaf = e.func.attr if isinstance(e.func, ast.Attribute) else e.func.id
            return SampleObj(__kind__=leaf, __built__=True, args=[ev(a_) for a_ in e.args], kwargs={k.arg: ev(k.value) for k in e.keywords if k.arg})
        if isinstance(e, ast.Call) and isinstance(e.func, ast.Name) and e.func.id in env and isinstance(env[e.func.id], ClassTok) and ctors \
                and env[e.func.id].name in ctors:
            return SampleObj(__kind__=env[e.func.id].name, __built__=True, args=[ev(a_) for a_ in e.args], kwargs={k.arg: ev(k.value) for k in e.keywords if k.arg})
        if isinstance(e, ast.Call) and unparse(e.func) in ("re.sub", "re.match", "re.search", "re.fullmatch", "re.findall", "re.split", "re.escape", "re.compile"):
            import re as _re_
            a_ = [ev(x) for x in e.args]
            kw_ = {k.arg: ev(k.value) for k in e.keywords if k.arg}
            if not a_ or not isinstance(a_[0], (str, _re_.Pattern)) or len(a_[0] if isinstance(a_[0], str) else a_[0].pattern) > 400:
                raise _PathEval.Unknown("regular expression that is not a short constant")
            try:
                return getattr(_re_, e.func.attr)(*a_, **kw_)
            except (_re_.error, TypeError, IndexError) as ex:
                raise _Raised(f"re.{e.func.attr}: {ex}")
        if isinstance(e, ast.Call) and isinstance(e.func, ast.Attribute) and e.func.attr in ("group", "groups", "start", "end", "span", "sub", "match", "search", "fullmatch", "findall"):
            import re as _re_
            try:
                recv_ = ev(e.func.value)
            except _PathEval.Unknown:
                recv_ = None
            if isinstance(recv_, (_re_.Match, _re_.Pattern)):
                try:
                    return getattr(recv_, e.func.attr)(*[ev(x) for x in e.args], **{k.arg: ev(k.value) for k in e.keywords if k.arg})
                except (_re_.error, TypeError, IndexError) as ex:
                    raise _Raised(f"{e.func.attr}: {ex}")
        if isinstance(e, ast.Call) and isinstance(e.func, ast.Name) and e.func.id in ("repr", "ord", "chr", "hex", "oct", "abs", "round") and e.func.id not in env:
            vals_ = [ev(x) for x in e.args]
            if e.func.id == "repr" and len(vals_) == 1 and isinstance(vals_[0], SampleObj):
                return obj_text(vals_[0])
            if any(isinstance(v_, (SampleObj, ClassTok)) for v_ in vals_):
                raise _PathEval.Unknown(f"{e.func.id}() of a sample object")
            try:
                return {"repr": repr, "ord": ord, "chr": chr, "hex": hex, "oct": oct, "abs": abs, "round": round}[e.func.id](*vals_)
            except (TypeError, ValueError) as ex:
                raise _Raised(str(ex))
        if isinstance(e, ast.Call) and isinstance(e.func, ast.Name) and e.func.id in env and callable(env[e.func.id]) and not isinstance(env[e.func.id], (SampleObj, ClassTok)):
            # a function defined inside the interpreted function (or a lambda bound to a name)
            return env[e.func.id](*[ev(x) for x in e.args], **{k.arg: ev(k.value) for k in e.keywords if k.arg})
        if isinstance(e, ast.BinOp) and isinstance(e.op, (ast.Mult, ast.FloorDiv, ast.Div, ast.Pow, ast.BitOr, ast.BitAnd)):
            l_, r_ = ev(e.left), ev(e.right)
            if any(isinstance(v_, (SampleObj, ClassTok)) or callable(v_) for v_ in (l_, r_)):
                raise _PathEval.Unknown("arithmetic on a sample object")
            import operator as _op
            f2_ = {ast.Mult: _op.mul, ast.FloorDiv: _op.floordiv, ast.Div: _op.truediv, ast.Pow: _op.pow, ast.BitOr: _op.or_, ast.BitAnd: _op.and_}[type(e.op)]
            try:
                r2_ = f2_(l_, r_)
            except (TypeError, ZeroDivisionError, OverflowError):
                raise _PathEval.Unknown("arithmetic on these samples")
            if isinstance(r2_, (str, list)) and len(r2_) > 100000:
                raise _PathEval.Unknown("value too large")
            return r2_
        if isinstance(e, ast.BinOp) and isinstance(e.op, ast.Mod):
            l_, r_ = ev(e.left), ev(e.right)
            if isinstance(l_, str):
                try:
                    return l_ % (tuple(r_) if isinstance(r_, list) and isinstance(e.right, ast.Tuple) else r_)
                except (TypeError, ValueError) as ex:
                    raise _Raised(str(ex))
            try:
                return l_ % r_
            except (TypeError, ZeroDivisionError):
                raise _PathEval.Unknown("modulo on these samples")
        if isinstance(e, ast.Call) and unparse(e.func) in ("reduce", "functools.reduce") and len(e.args) in (2, 3) and not (isinstance(e.func, ast.Name) and e.func.id in env):
            f0_, seq_ = ev(e.args[0]), ev(e.args[1])
            if not callable(f0_) or isinstance(f0_, (SampleObj, ClassTok)) or not isinstance(seq_, (list, tuple)):
                raise _PathEval.Unknown("reduce over these samples")
            it_ = list(seq_)
            if len(e.args) == 3:
                acc_ = ev(e.args[2])
            elif it_:
                acc_ = it_.pop(0)
            else:
                raise _Raised("TypeError: reduce() of empty sequence with no initial value")
            for x_ in it_:
                acc_ = f0_(acc_, x_)
            return acc_
        if isinstance(e, ast.Call) and unparse(e.func) in ("warnings.warn", "print", "logging.warning", "logging.info", "logging.debug", "logging.error") \
                and not (isinstance(e.func, ast.Name) and e.func.id in env):
            return None                               # reporting: nothing the result depends on
        if isinstance(e, ast.Call) and unparse(e.func) in ("Path", "pathlib.Path", "PurePath", "pathlib.PurePath", "PurePosixPath") and len(e.args) >= 1 \
                and not (isinstance(e.func, ast.Name) and e.func.id in env):
            import pathlib as _pl
            a_ = [ev(x) for x in e.args]
            if not all(isinstance(x, (str, _pl.PurePath)) for x in a_):
                raise _PathEval.Unknown("Path of something that is not text")
            return _pl.PurePosixPath(*a_)
        if isinstance(e, ast.Call) and unparse(e.func) in ("os.path.abspath", "osp.abspath") and len(e.args) == 1:
            import posixpath as _pp
            a0_ = ev(e.args[0])
            a0_ = str(a0_) if hasattr(a0_, "as_posix") else a0_
            if not isinstance(a0_, str):
                raise _PathEval.Unknown("abspath of something that is not text")
            return _pp.normpath(_pp.join(SAMPLE_CWD, a0_))
        if isinstance(e, ast.Call) and unparse(e.func) in ("os.path.basename", "os.path.dirname", "os.path.splitext", "os.path.join", "osp.basename", "osp.dirname",
                                                            "osp.splitext", "osp.join", "os.path.normpath", "osp.normpath", "os.fspath", "str.lower"):
            import posixpath as _pp
            a_ = [str(ev(x)) if not isinstance(ev(x), str) and hasattr(ev(x), "as_posix") else ev(x) for x in e.args]
            if not all(isinstance(x, str) for x in a_):
                raise _PathEval.Unknown("path function on something that is not text")
            nm_ = unparse(e.func).split(".")[-1]
            if nm_ == "fspath":
                return a_[0]
            r_ = getattr(_pp, nm_)(*a_)
            return list(r_) if isinstance(r_, tuple) else r_
        if isinstance(e, ast.Attribute) and e.attr in ("stem", "name", "suffix", "parent", "parts", "suffixes"):
            import pathlib as _pl
            try:
                base_ = ev(e.value)
            except _PathEval.Unknown:
                base_ = None
            if isinstance(base_, _pl.PurePath):
                r_ = getattr(base_, e.attr)
                return list(r_) if isinstance(r_, tuple) else r_
        if isinstance(e, ast.Call) and isinstance(e.func, ast.Attribute) and e.func.attr in ("with_suffix", "with_name", "joinpath", "as_posix", "relative_to", "is_absolute"):
            import pathlib as _pl
            try:
                base_ = ev(e.func.value)
            except _PathEval.Unknown:
                base_ = None
            if isinstance(base_, _pl.PurePath):
                try:
                    return getattr(base_, e.func.attr)(*[ev(x) for x in e.args])
                except (ValueError, TypeError) as ex:
                    raise _Raised(str(ex))
        if isinstance(e, ast.Call) and unparse(e.func) in ("partial", "functools.partial") and e.args and not (isinstance(e.func, ast.Name) and e.func.id in env):
            import functools as _ft
            f0_ = ev(e.args[0])
            if not callable(f0_) or isinstance(f0_, (SampleObj, ClassTok)):
                raise _PathEval.Unknown("partial of something that is not a function")
            return _ft.partial(f0_, *[ev(x) for x in e.args[1:]], **{k.arg: ev(k.value) for k in e.keywords if k.arg})
        if isinstance(e, ast.Attribute) and classes:
            # a method of a modelled class taken as a value (`partial(self._format_type_name, ...)`)
            try:
                b_ = ev(e.value)
            except _PathEval.Unknown:
                b_ = None
            if isinstance(b_, SampleObj) and e.attr not in b_ and b_.get("__kind__") in classes and isinstance(classes[b_["__kind__"]].get(e.attr), ast.FunctionDef):
                m3_ = classes[b_["__kind__"]][e.attr]
                return lambda *a_, **k_: invoke(m3_, b_, list(a_), dict(k_))
        if isinstance(e, ast.Call) and not isinstance(e.func, (ast.Name, ast.Attribute)):
            f0_ = ev(e.func)
            if callable(f0_) and not isinstance(f0_, (SampleObj, ClassTok)):
                return f0_(*[ev(x) for x in e.args], **{k.arg: ev(k.value) for k in e.keywords if k.arg})
        if isinstance(e, ast.Call) and unparse(e.func) in ("textwrap.indent", "textwrap.dedent", "indent", "dedent") and \
                (isinstance(e.func, ast.Attribute) or e.func.id not in env):
            import textwrap as _tw
            a_ = [ev(x) for x in e.args]
            kw_ = {k.arg: ev(k.value) for k in e.keywords if k.arg}
            if not a_ or not isinstance(a_[0], str) or any(callable(v_) for v_ in kw_.values()):
                raise _PathEval.Unknown("textwrap on something that is not text")
            try:
                return getattr(_tw, unparse(e.func).split(".")[-1])(*a_, **kw_)
            except TypeError as ex:
                raise _PathEval.Unknown(f"textwrap: {ex}")
        if isinstance(e, ast.Call) and unparse(e.func) in ("itertools.product", "product"):
            import itertools as _it
            vals_ = []
            for a_ in e.args:
                if isinstance(a_, ast.Starred):
                    vals_.extend(ev(a_.value))
                else:
                    vals_.append(ev(a_))
            if e.keywords:
                raise _PathEval.Unknown("itertools.product with keywords")
            try:
                return [tuple(x) for x in _it.product(*vals_)]
            except TypeError:
                raise _PathEval.Unknown("itertools.product of these samples")
        if isinstance(e, ast.Call) and isinstance(e.func, ast.Name) and e.func.id == "id" and len(e.args) == 1:
            return id(ev(e.args[0]))
        if isinstance(e, ast.Call) and isinstance(e.func, ast.Name) and e.func.id in ("getattr", "hasattr") and len(e.args) >= 2:
            obj_, nm_ = ev(e.args[0]), ev(e.args[1])
            if not isinstance(obj_, SampleObj) or not isinstance(nm_, str):
                raise _PathEval.Unknown(f"{e.func.id} on something that is not a sample object")
            if e.func.id == "hasattr":
                return nm_ in obj_
            if nm_ in obj_:
                return obj_[nm_]
            if len(e.args) == 3:
                return ev(e.args[2])
            raise _Raised("AttributeError")
        if isinstance(e, ast.Call) and isinstance(e.func, ast.Name) and e.func.id == "isinstance" and len(e.args) == 2:
            obj = ev(e.args[0])
            ks = e.args[1].elts if isinstance(e.args[1], ast.Tuple) else [e.args[1]]
            names = set()
            if len(ks) == 1 and not isinstance(ks[0], (ast.Name, ast.Attribute)):
                try:
                    v0_ = ev(ks[0])
                    ks = []
                    for c_ in (v0_ if isinstance(v0_, (list, tuple)) else [v0_]):
                        names.add(c_.name if isinstance(c_, ClassTok) else None)
                except _PathEval.Unknown:
                    pass
            for k in ks:
                if isinstance(k, ast.Name) and k.id in env:
                    v_ = env[k.id]                      # a class held in a variable (`for t, dest in table: isinstance(m, t)`)
                    for c_ in (v_ if isinstance(v_, (list, tuple)) else [v_]):
                        names.add(c_.name if isinstance(c_, ClassTok) else None)
                else:
                    names.add(k.attr if isinstance(k, ast.Attribute) else (k.id if isinstance(k, ast.Name) else None))
            if None in names:
                raise _PathEval.Unknown("isinstance against a computed class")
            if isinstance(obj, SampleObj):
                return bool(({obj.get("__kind__")} | set(obj.get("__bases__", ()))) & names)
            py = {"str": str, "list": list, "tuple": tuple, "dict": dict, "int": int, "bool": bool, "set": set, "Iterable": (list, tuple, dict, set, str)}
            return any(isinstance(obj, py[n_]) for n_ in names if n_ in py)
        if isinstance(e, ast.Call) and isinstance(e.func, ast.Attribute) and e.func.attr in _VALUE_METHODS["__all__"] and not (methods and e.func.attr in methods):
            recv = ev(e.func.value)
            if type(recv) in (list, dict, str, tuple, set) and e.func.attr in _VALUE_METHODS[type(recv)]:
                a_ = [ev(x) for x in e.args]
                kw_ = {k.arg: ev(k.value) for k in e.keywords if k.arg}
                if type(recv) is str and e.func.attr == "format":
                    # a sample object printed as a whole (`'{}'.format(typename)`) prints through its class's __repr__ / __str__
                    import string as _string
                    plain_ = set()
                    auto_ = 0
                    try:
                        fields_ = list(_string.Formatter().parse(recv))
                    except ValueError as ex:
                        raise _Raised(f"ValueError: {ex}")          # what str.format itself raises for this text
                    for _lit, fld_, _spec, _conv in fields_:
                        if fld_ is None:
                            continue
                        if fld_ == "":
                            plain_.add(auto_)
                            auto_ += 1
                        elif fld_.isdigit():
                            plain_.add(int(fld_))
                        elif fld_.isidentifier():
                            plain_.add(fld_)
                    a_ = [obj_text(v_) if isinstance(v_, SampleObj) and i_ in plain_ else v_ for i_, v_ in enumerate(a_)]
                    kw_ = {k_: (obj_text(v_) if isinstance(v_, SampleObj) and k_ in plain_ else v_) for k_, v_ in kw_.items()}
                try:
                    r_ = getattr(recv, e.func.attr)(*a_, **kw_)
                except (TypeError, ValueError, IndexError, KeyError, AttributeError) as ex:
                    raise _PathEval.Unknown(f"{e.func.attr}() on these samples: {ex}")
                return list(r_) if e.func.attr in ("values", "keys", "items") else r_
        if isinstance(e, ast.JoinedStr):
            out_ = []
            for v_ in e.values:
                if isinstance(v_, ast.Constant):
                    out_.append(str(v_.value))
                elif isinstance(v_, ast.FormattedValue) and v_.format_spec is None and v_.conversion == -1:
                    x_ = ev(v_.value)
                    if isinstance(x_, SampleObj):
                        out_.append(obj_text(x_))
                        continue
                    if isinstance(x_, ClassTok) or callable(x_):
                        raise _PathEval.Unknown("a sample object formatted into text")
                    out_.append(str(x_))
                else:
                    raise _PathEval.Unknown("format specification in an f-string")
            return "".join(out_)
        if isinstance(e, ast.Lambda) and not e.args.kwonlyargs and not e.args.vararg and not e.args.kwarg:
            ps_ = [a.arg for a in e.args.args]

            def fn_(*vals):
                if len(vals) != len(ps_):
                    raise _PathEval.Unknown("lambda called with another number of arguments")
                saved_ = {k: env[k] for k in ps_ if k in env}
                env.update(zip(ps_, vals))
                try:
                    return ev(e.body)
                finally:
                    for k in ps_:
                        env.pop(k, None)
                    env.update(saved_)
            return fn_
        if isinstance(e, ast.Dict):
            return {ev(k): ev(v) for k, v in zip(e.keys, e.values)}
        if isinstance(e, ast.Set):
            return {ev(x) for x in e.elts}
        if isinstance(e, (ast.ListComp, ast.SetComp, ast.DictComp)) and len(e.generators) > 1 or isinstance(e, (ast.SetComp, ast.DictComp)):
            out = []
            saved = dict(env)

            def gen(k):
                if k == len(e.generators):
                    out.append((ev(e.key), ev(e.value)) if isinstance(e, ast.DictComp) else ev(e.elt))
                    return
                g_ = e.generators[k]
                for item in ev(g_.iter):
                    bind(g_.target, item)
                    if all(truth(ev(c)) for c in g_.ifs):
                        gen(k + 1)
            gen(0)
            env.clear()
            env.update(saved)
            return dict(out) if isinstance(e, ast.DictComp) else (set(out) if isinstance(e, ast.SetComp) else out)
        if isinstance(e, ast.Call) and isinstance(e.func, ast.Attribute) and e.func.attr == "join" and len(e.args) == 1:
            sep, items = ev(e.func.value), ev(e.args[0])
            if isinstance(sep, str) and isinstance(items, list) and all(isinstance(x, str) for x in items):
                return sep.join(items)
            raise _PathEval.Unknown("join of non-strings")
        if isinstance(e, ast.Call) and isinstance(e.func, ast.Name) and e.func.id in ("range", "min", "max", "zip", "enumerate", "all", "any", "len", "list", "tuple", "bool", "sorted", "reversed", "dict", "set", "str", "int", "sum"):
            vals = [ev(a_) for a_ in e.args]
            if e.func.id in ("len", "bool") and len(vals) == 1 and isinstance(vals[0], SampleObj) and not isinstance(vals[0], SampleElem):
                # the length / truth of an object of the program is what its class says
                if e.func.id == "bool":
                    return truth(vals[0])
                special = "__len__"
                if special in vals[0] and callable(vals[0][special]):
                    return vals[0][special]() if e.func.id == "len" else bool(vals[0][special]())
                if classes and vals[0].get("__kind__") in classes and isinstance(classes[vals[0]["__kind__"]].get(special), ast.FunctionDef):
                    m2_ = classes[vals[0]["__kind__"]][special]
                    r_ = mini_exec(m2_, {m2_.args.args[0].arg: vals[0]}, budget, methods, _depth + 1, functions, ctors, classes, consts)
                    return r_ if e.func.id == "len" else bool(r_)
                if methods and special in methods and vals[0].get("__kind__"):
                    r_ = mini_exec(methods[special], {methods[special].args.args[0].arg: vals[0]}, budget, methods, _depth + 1, functions, ctors, classes, consts)
                    return r_ if e.func.id == "len" else bool(r_)
                if e.func.id == "len":
                    raise _PathEval.Unknown("len() of a sample object")
            f_ = {"range": range, "min": min, "max": max, "zip": zip, "enumerate": enumerate, "all": all, "any": any, "len": len, "list": list,
                  "tuple": tuple, "bool": bool, "sorted": sorted, "reversed": reversed, "dict": dict, "set": set, "str": str, "int": int, "sum": sum}[e.func.id]
            if e.func.id == "str" and any(isinstance(v_, SampleObj) for v_ in vals):
                return obj_text(vals[0])
            kws_ = {k.arg: ev(k.value) for k in e.keywords if k.arg}
            try:
                r = f_(*vals, **kws_)
            except TypeError:
                raise _PathEval.Unknown(f"{e.func.id}() of these samples")
            except (ValueError, IndexError, KeyError, OverflowError) as ex:
                raise _Raised(f"{type(ex).__name__}: {ex}")
            return list(r) if e.func.id in ("range", "zip", "enumerate", "reversed") else r
        if isinstance(e, ast.GeneratorExp):
            # a generator expression is lazy: its first iterable is evaluated now, everything else when the consumer asks for the next
            # item - with the values the enclosing variables have *then* (its own loop variables are private to it)
            gens = e.generators
            first = ev(gens[0].iter)
            loc: Dict[str, object] = {}
            _missing = object()

            def with_loc(f_):
                saved_ = {k: env.get(k, _missing) for k in loc}
                env.update(loc)
                try:
                    return f_()
                finally:
                    for k, v_ in saved_.items():
                        if v_ is _missing:
                            env.pop(k, None)
                        else:
                            env[k] = v_

            def bind_private(t, item):
                names_ = [x.id for x in ast.walk(t) if isinstance(x, ast.Name)]
                saved_ = {k: env.get(k, _missing) for k in names_}
                bind(t, item)
                for k in names_:
                    loc[k] = env[k]
                for k, v_ in saved_.items():
                    if v_ is _missing:
                        env.pop(k, None)
                    else:
                        env[k] = v_

            def rec(k):
                if k == len(gens):
                    yield with_loc(lambda: ev(e.elt))
                    return
                g_ = gens[k]
                it_ = first if k == 0 else with_loc(lambda: ev(g_.iter))
                for item in it_:
                    steps[0] += 1
                    if steps[0] > budget:
                        raise _PathEval.Unknown("too many steps")
                    bind_private(g_.target, item)
                    if with_loc(lambda: all(truth(ev(c)) for c in g_.ifs)):
                        yield from rec(k + 1)
            return rec(0)
        if isinstance(e, (ast.GeneratorExp, ast.ListComp)) and len(e.generators) == 1:
            g = e.generators[0]
            out = []
            saved = dict(env)
            for item in ev(g.iter):
                bind(g.target, item)
                if all(truth(ev(c)) for c in g.ifs):
                    out.append(ev(e.elt))
            env.clear()
            env.update(saved)
            return out
        if isinstance(e, ast.Name):
            if e.id in env:
                return env[e.id]
            if ctors and e.id in ctors:
                return ClassTok(e.id)
            if consts and e.id in consts and _depth < 14:
                return ev(consts[e.id])                 # a module-level constant of the program
            if e.id in ("True", "False", "None"):
                return {"True": True, "False": False, "None": None}[e.id]
            raise _PathEval.Unknown(f"name {e.id}")
        if isinstance(e, ast.Constant):
            return e.value
        if isinstance(e, ast.Compare) and len(e.ops) > 1:
            # a chain `a < b <= c`: pairwise, left to right, each operand evaluated once, stopping at the first false link
            l = ev(e.left)
            for op_, c_ in zip(e.ops, e.comparators):
                r = ev(c_)
                f_ = {ast.Eq: lambda a, b: obj_eq(a, b), ast.NotEq: lambda a, b: not obj_eq(a, b), ast.In: lambda a, b: obj_in(a, b), ast.NotIn: lambda a, b: not obj_in(a, b),
                      ast.Lt: lambda a, b: a < b, ast.LtE: lambda a, b: a <= b, ast.Gt: lambda a, b: a > b, ast.GtE: lambda a, b: a >= b,
                      ast.Is: lambda a, b: a is b, ast.IsNot: lambda a, b: a is not b}.get(type(op_))
                if f_ is None:
                    raise _PathEval.Unknown("comparison")
                try:
                    if not f_(l, r):
                        return False
                except TypeError:
                    raise _PathEval.Unknown("comparison of different kinds")
                l = r
            return True
        if isinstance(e, ast.Compare) and len(e.ops) == 1:
            l, r = ev(e.left), ev(e.comparators[0])
            op = type(e.ops[0])
            table = {ast.Eq: lambda: obj_eq(l, r), ast.NotEq: lambda: not obj_eq(l, r), ast.In: lambda: obj_in(l, r), ast.NotIn: lambda: not obj_in(l, r), ast.Lt: lambda: l < r,
                     ast.LtE: lambda: l <= r, ast.Gt: lambda: l > r, ast.GtE: lambda: l >= r, ast.Is: lambda: l is r, ast.IsNot: lambda: l is not r}
            if op not in table:
                raise _PathEval.Unknown("comparison")
            return table[op]()
        if isinstance(e, ast.UnaryOp) and isinstance(e.op, ast.Not):
            return not truth(ev(e.operand))
        if isinstance(e, ast.BoolOp):
            v = None
            for x in e.values:
                v = ev(x)
                if truth(v) != isinstance(e.op, ast.And):
                    return v
            return v
        if isinstance(e, ast.IfExp):
            return ev(e.body) if truth(ev(e.test)) else ev(e.orelse)
        if isinstance(e, ast.Subscript):
            base = ev(e.value)
            if isinstance(e.slice, ast.Slice):
                lo = ev(e.slice.lower) if e.slice.lower is not None else None
                hi = ev(e.slice.upper) if e.slice.upper is not None else None
                st = ev(e.slice.step) if e.slice.step is not None else None
                return base[lo:hi:st]
            try:
                return base[ev(e.slice)]
            except (IndexError, KeyError, TypeError):
                raise _PathEval.Unknown("subscript out of range on these samples")
        if isinstance(e, ast.BinOp) and isinstance(e.op, (ast.Add, ast.Sub)):
            l, r = ev(e.left), ev(e.right)
            try:
                return l + r if isinstance(e.op, ast.Add) else l - r
            except TypeError:
                raise _PathEval.Unknown("arithmetic on these samples")
        if isinstance(e, (ast.List, ast.Tuple)):
            out_l = []
            for x in e.elts:
                if isinstance(x, ast.Starred):
                    out_l.extend(ev(x.value))
                else:
                    out_l.append(ev(x))
            return out_l
        if isinstance(e, ast.Attribute) and isinstance(e.value, ast.Name) and e.value.id not in env and e.attr[:1].isupper():
            return ClassTok(e.attr)                  # `parser.Class` where classes are handled as values
        if isinstance(e, ast.Call) and isinstance(e.func, ast.Name) and e.func.id in env and isinstance(env[e.func.id], ClassTok) and ctors \
                and env[e.func.id].name in ctors:
            return SampleObj(__kind__=env[e.func.id].name, __built__=True, args=[ev(a_) for a_ in e.args], kwargs={k.arg: ev(k.value) for k in e.keywords if k.arg})
        return pe.ev(e, {k: v for k, v in env.items()})

    def bind(t, v):
        if isinstance(t, ast.Name):
            env[t.id] = v
        elif isinstance(t, (ast.Tuple, ast.List)) and isinstance(v, (list, tuple)) and sum(isinstance(x, ast.Starred) for x in t.elts) == 1 \
                and len(v) >= len(t.elts) - 1:
            k_ = next(i for i, x in enumerate(t.elts) if isinstance(x, ast.Starred))
            tail_ = len(t.elts) - k_ - 1
            for x, y in zip(t.elts[:k_], v[:k_]):
                bind(x, y)
            bind(t.elts[k_].value, list(v[k_:len(v) - tail_]))
            for x, y in zip(t.elts[k_ + 1:], v[len(v) - tail_:] if tail_ else []):
                bind(x, y)
        elif isinstance(t, (ast.Tuple, ast.List)) and isinstance(v, (list, tuple)) and len(v) == len(t.elts):
            for x, y in zip(t.elts, v):
                bind(x, y)
        elif isinstance(t, ast.Attribute):
            base = ev(t.value)
            if not isinstance(base, SampleObj):
                raise _PathEval.Unknown("attribute store on something that is not a sample object")
            base[t.attr] = v
        elif isinstance(t, ast.Subscript) and not isinstance(t.slice, ast.Slice):
            base = ev(t.value)
            if type(base) not in (list, dict):
                raise _PathEval.Unknown("item store")
            try:
                base[ev(t.slice)] = v
            except (IndexError, KeyError, TypeError):
                raise _PathEval.Unknown("item store out of range on these samples")
        elif isinstance(t, ast.Subscript) and isinstance(t.slice, ast.Slice):
            base = ev(t.value)
            if type(base) is not list or not isinstance(v, (list, tuple)):
                raise _PathEval.Unknown("slice store")
            lo = ev(t.slice.lower) if t.slice.lower is not None else None
            hi = ev(t.slice.upper) if t.slice.upper is not None else None
            st_ = ev(t.slice.step) if t.slice.step is not None else None
            try:
                base[lo:hi:st_] = list(v)
            except (TypeError, ValueError) as ex:
                raise _Raised(f"{type(ex).__name__}: {ex}")
        else:
            raise _PathEval.Unknown("assignment target")

    def run(stmts):
        for st in stmts:
            steps[0] += 1
            if steps[0] > budget:
                raise _PathEval.Unknown("too many steps")
            if isinstance(st, ast.Expr) and isinstance(st.value, ast.Constant):
                continue
            if isinstance(st, ast.Return):
                raise _Return(ev(st.value) if st.value is not None else None)
            if isinstance(st, ast.Assign):
                v_ = ev(st.value)
                for t_ in st.targets:              # `a = b = value` binds every target
                    bind(t_, v_)
            elif isinstance(st, ast.AnnAssign) and st.value is not None:
                bind(st.target, ev(st.value))
            elif isinstance(st, ast.AnnAssign):
                continue
            elif isinstance(st, ast.AugAssign) and isinstance(st.target, ast.Name) and isinstance(st.op, (ast.Add, ast.Sub)):
                cur = env.get(st.target.id)
                if isinstance(cur, list) and isinstance(st.op, ast.Add):
                    cur.extend(ev(st.value))          # `+=` on a list grows the object every alias sees
                else:
                    env[st.target.id] = cur + ev(st.value) if isinstance(st.op, ast.Add) else cur - ev(st.value)
            elif isinstance(st, ast.AugAssign) and isinstance(st.target, ast.Attribute) and isinstance(st.op, ast.Add):
                base = ev(st.target.value)
                if not isinstance(base, SampleObj) or st.target.attr not in base:
                    raise _PathEval.Unknown("augmented attribute store")
                cur = base[st.target.attr]
                if isinstance(cur, list):
                    cur.extend(ev(st.value))
                else:
                    base[st.target.attr] = cur + ev(st.value)
            elif isinstance(st, ast.FunctionDef) and not st.decorator_list:
                def local_fn(*vals, _g=st, **kws):
                    ps_ = [a.arg for a in _g.args.args]
                    if len(vals) > len(ps_) or any(k_ not in ps_ for k_ in kws):
                        raise _PathEval.Unknown("local function called with arguments it does not take")
                    call_env = dict(env)
                    call_env.update(zip(ps_, vals))
                    call_env.update(kws)
                    for p_, d_ in zip(ps_[len(ps_) - len(_g.args.defaults):], _g.args.defaults):
                        if ps_.index(p_) >= len(vals) and p_ not in kws:
                            call_env[p_] = ev(d_)
                    return mini_exec(_g, call_env, budget, methods, _depth + 1, functions, ctors, classes, consts)
                env[st.name] = local_fn
            elif isinstance(st, ast.AugAssign) and isinstance(st.target, ast.Subscript) and isinstance(st.op, (ast.Add, ast.Sub)) and not isinstance(st.target.slice, ast.Slice):
                base = ev(st.target.value)
                key_ = ev(st.target.slice)
                if type(base) not in (list, dict):
                    raise _PathEval.Unknown("augmented item store")
                try:
                    cur = base[key_]
                except (IndexError, KeyError, TypeError):
                    raise _Raised("item not found")
                if isinstance(cur, list) and isinstance(st.op, ast.Add):
                    cur.extend(ev(st.value))
                else:
                    base[key_] = cur + ev(st.value) if isinstance(st.op, ast.Add) else cur - ev(st.value)
            elif isinstance(st, ast.Expr) and isinstance(st.value, ast.Yield):
                yielded.append(ev(st.value.value) if st.value.value is not None else None)        # a generator function is run to its end
            elif isinstance(st, ast.Expr) and isinstance(st.value, ast.YieldFrom):
                yielded.extend(ev(st.value.value))
            elif isinstance(st, ast.Expr) and isinstance(st.value, ast.Call):
                ev(st.value)
            elif isinstance(st, ast.While):
                while truth(ev(st.test)):
                    steps[0] += 1
                    if steps[0] > budget:
                        raise _PathEval.Unknown("too many steps")
                    try:
                        run(st.body)
                    except _LoopCtl as c:
                        if c.kind == "break":
                            break
            elif isinstance(st, ast.Raise):
                raise _Raised(unparse(st.exc)[:60] if st.exc is not None else "")
            elif isinstance(st, ast.Assert):
                if not truth(ev(st.test)):
                    raise _Raised("AssertionError")
            elif isinstance(st, ast.If):
                run(st.body if truth(ev(st.test)) else st.orelse)
            elif isinstance(st, ast.For):
                broke = False
                for item in ev(st.iter):
                    bind(st.target, item)
                    try:
                        run(st.body)
                    except _LoopCtl as c:
                        if c.kind == "break":
                            broke = True
                            break
                if not broke:
                    run(st.orelse)
            elif isinstance(st, ast.Continue):
                raise _LoopCtl("continue")
            elif isinstance(st, ast.Break):
                raise _LoopCtl("break")
            elif isinstance(st, (ast.Pass, ast.Import, ast.ImportFrom)):
                continue                              # (the modelled library functions are known by their dotted or bare names)
            else:
                raise _PathEval.Unknown(f"statement {type(st).__name__} `{unparse(st)[:60]}`")
    yielded: List[object] = []
    is_gen = any(isinstance(y_, (ast.Yield, ast.YieldFrom)) for y_ in walk_no_nested(fn))
    try:
        run(fn.body)
    except _Return as r:
        return yielded if is_gen else r.value
    return yielded if is_gen else None


def rule_package_paths(ctx, rep: Report, rid="T3", min_sites=4):
    """Every kind of entity (class, namespace-level enum, free function, class-scoped enum) is filed under the package
    folder of its namespace: `+a/+b/+c` for the namespace path ['', a, b, c] (plus `/+<Class>` for an enum of a class).
    Each path-building expression is evaluated by the analyser on sample namespace lists of depth 1 and 3 - depth 3
    tells a leaf-only or separator-less spelling from the right one, which depth 1 cannot."""
    ci, prog = mw(ctx)
    sites = []
    for mname in ("wrap_namespace", "wrap_methods", "wrap_instantiated_class"):
        fn = prog.method("MatlabWrapper", mname)
        for c in walk_no_nested(fn):
            if isinstance(c, ast.Call) and isinstance(c.func, ast.Attribute) and c.func.attr == "append" and c.args \
                    and isinstance(c.args[0], ast.Tuple) and len(c.args[0].elts) == 2 and isinstance(c.args[0].elts[1], ast.List):
                sites.append((mname, fn, c, c.args[0].elts[0]))
    n = 0
    for mname, fn, c, pathx in sites:
        n += 1
        kind = "class-scoped enum" if mname == "wrap_instantiated_class" else (
            "global function" if mname == "wrap_methods" else ("class" if "class_text" in unparse(c) or "wrap_instantiated_class" in unparse(inline_locals(fn, c.args[0].elts[1])) else "namespace enum"))
        got, want, err = [], [], None
        for sample in (["", "A"], ["", "A", "B", "C"]):
            w = "/".join("+" + x for x in sample[1:]) + ("/+K" if mname == "wrap_instantiated_class" else "")
            want.append(w)
            pe = _PathEval(fn, sample, prog=prog, ci=ci)
            # a parameter the value really depends on stands for what the callers in the class pass: one evaluation per context
            envs = [{}]
            try:
                for _ in range(4):
                    try:
                        outs = []
                        for e_ in envs:
                            o_ = pe.ev(pathx, e_)
                            if o_ not in outs:
                                outs.append(o_)
                        got.append(outs[0] if len(outs) == 1 else outs)
                        break
                    except _PathEval.Unknown as ex:
                        m_ = re.fullmatch(r"parameter (\w+)", str(ex))
                        if not m_ or any(m_.group(1) in e_ for e_ in envs):
                            raise
                        envs = [dict(e_, **{m_.group(1): v_}) for e_ in envs for v_ in pe.param_values(m_.group(1))]
            except _PathEval.Unknown as ex:
                err = str(ex)
                break
        if err is not None:
            raise AnalysisError(f"{ci.mod.rel}:{c.lineno}: package path `{unparse(pathx)[:60]}` is built in a way this rule cannot evaluate ({err})")
        rep.add(rid, f"package path:{kind} ({mname})", got == want,
                f"for the namespace paths ['', A] and ['', A, B, C] the folder is {got}, every kind of entity must be placed in {want}: a leaf-only or "
                f"separator-less path files `a::b::c::K` somewhere else than the classes of the same namespace (the folder of a scope is taken from "
                f"its first entry, so the neighbours move with it)", f"{ci.mod.rel}:{c.lineno}")
    if n < min_sites:
        raise AnalysisError(f"{rep.prop}/{rid}: {n} package-path sites, {min_sites} expected")


def rule_classdef_complete(ctx, rep: Report, rid="T4"):
    ci, prog = mw(ctx)
    fn = prog.method("MatlabWrapper", "wrap_instantiated_class")
    ip = func_params(fn)[1]
    need = {"wrap_properties_block": "pointer property block", "wrap_class_constructors": "constructor",
            "wrap_class_deconstructor": "delete", "wrap_class_display": "display", "wrap_static_methods": "static methods block"}
    acc = None
    rets = [r for r in walk_no_nested(fn) if isinstance(r, ast.Return) and isinstance(r.value, ast.Tuple)]
    if rets:
        acc = unparse(rets[-1].value.elts[1])
    for meth, what in need.items():
        calls = [c for c in walk_no_nested(fn) if isinstance(c, ast.Call) and unparse(c.func) == f"self.{meth}"]
        ok = len(calls) == 1
        if ok:
            st = stmt_of(calls[0])
            ok = isinstance(st, ast.AugAssign) and unparse(st.target) == acc and not guards_of(st, fn, include_exits=False)
        rep.add(rid, f"classdef:{what} appended unconditionally", ok,
                f"{meth} must be called once and its text appended to the classdef on every path", f"{ci.mod.rel}:{fn.lineno}")
    # methods / property accessors under "has any"
    for meth, attr in (("wrap_class_methods", "methods"), ("wrap_class_properties", "properties")):
        calls = [c for c in walk_no_nested(fn) if isinstance(c, ast.Call) and unparse(c.func) == f"self.{meth}"]
        gs = [t.replace(" ", "") for t, pol in guards_of(calls[0], fn, include_exits=False) if pol] if calls else None
        rep.add(rid, f"classdef:{attr} emitted iff the class has any", gs == [f"len({ip}.{attr})!=0"], f"guards {gs}",
                f"{ci.mod.rel}:{fn.lineno}")
    # base
    fo = Folder(prog, ci.mod, fn, ci)
    ok = False
    for st in walk_no_nested(fn):
        if isinstance(st, ast.AugAssign) and "classdef" in unparse(st.value):
            t = fo.fold(st.value)
            if t is not None and t.slot("parent") is not None:
                pe = unparse(t.slot("parent").val)
                ok = f"self._qualified_name({ip}.parent_class)" in pe and " ".join(t.literal("@").split()) == "classdef @ < @"
    qn = prog.method("MatlabWrapper", "_qualified_name")
    rep.add(rid, "classdef:names the declared base, or handle when there is none",
            ok and "'handle' if" in unparse(qn) and "== ''" in unparse(qn), unparse(qn.body[-1]), f"{ci.mod.rel}:{fn.lineno}")


def rule_one_mex_source(ctx, rep: Report, rid="T5"):
    ci, prog = mw(ctx)
    wn = prog.method("MatlabWrapper", "wrap_namespace")
    flag = func_params(wn)[2]
    adds = [c for c in walk_no_nested(wn) if isinstance(c, ast.Call) and unparse(c.func) == "self.content.append"
            and ".cpp" in unparse(inline_locals(wn, c.args[0]))]
    ok = len(adds) == 1 and [t for t, pol in guards_of(adds[0], wn, include_exits=False) if pol] == [flag]
    rec = [c for c in walk_no_nested(wn) if isinstance(c, ast.Call) and unparse(c.func) == "self.wrap_namespace"]
    rec_ok = all((len(c.args) > 1 and unparse(c.args[1]) == "False") or any(k.arg == flag and unparse(k.value) == "False" for k in c.keywords)
                 for c in rec)
    rep.add(rid, "MEX source entry added by the top-level call only", ok and rec_ok and bool(rec),
            f"{len(adds)} .cpp entries under {[guards_of(a, wn, include_exits=False) for a in adds]}; recursive calls pass "
            f"{[unparse(c) for c in rec]}", f"{ci.mod.rel}:{wn.lineno}")
    gw = prog.method("MatlabWrapper", "generate_wrapper")
    names = [unparse(inline_locals(gw, c.args[0].elts[0])) for c in walk_no_nested(gw) if isinstance(c, ast.Call)
             and unparse(c.func) == "self.content.append" and isinstance(c.args[0], ast.Tuple)]
    wn_names = [unparse(inline_locals(wn, a.args[0].elts[0])) for a in adds if isinstance(a.args[0], ast.Tuple)]
    rep.add(rid, "the generated MEX source replaces the placeholder under the same file name", names == wn_names and len(names) == 1,
            f"generate_wrapper writes {names}, wrap_namespace reserved {wn_names}", f"{ci.mod.rel}:{gw.lineno}")


# ==========================================================================================
# C11: ownership obligations of the routine templates (C++ inside Python string templates)
import re as _re


def _cpp_text(t: Tpl) -> str:
    return "".join(p if isinstance(p, str) else f"__{p.key}__" for p in t.parts)


def _tokens(text: str) -> List[str]:
    return _re.findall(r"[A-Za-z_][A-Za-z_0-9]*|::|->|\*\*|!=|==|\+\+|--|[{}()\[\];,*&<>=!.+\-]|\"[^\"]*\"|\d+", text)


def routine_templates(ctx) -> Dict[str, Tuple[Tpl, int, str]]:
    """Folded C++ routine templates: name -> (template, line, where)."""
    ci, prog = mw(ctx)
    out: Dict[str, Tuple[Tpl, int, str]] = {}
    gc = prog.method("MatlabWrapper", "generate_collector_function")
    fo = Folder(prog, ci.mod, gc, ci)
    k = 0
    for c in sorted((x for x in ast.walk(gc) if isinstance(x, ast.Call) and isinstance(x.func, ast.Attribute) and x.func.attr == "format"),
                    key=lambda x: x.lineno):
        p = parent(c)
        if isinstance(p, ast.Attribute) and p.attr == "format":
            continue
        try:
            t = fo.fold(c)
        except AnalysisError:
            continue
        if t is None:
            continue
        txt = _cpp_text(t)
        gs = [g for g, pol in guards_of(c, gc, include_exits=False) if pol]
        role = next((g for g in reversed(gs) if "==" in g or "is_" in g), "top")
        tag = None
        allg = " ".join(gs)
        is_base = "SharedBase" in txt and "new Shared(new" not in txt and ".insert(" not in txt
        if "'deconstructor'" in allg:
            tag = "deconstructor"
        elif "'constructor'" in allg:
            tag = "base:constructor" if is_base else "constructor"
        elif "'collectorInsertAndMakeBase'" in allg:
            tag = "base:collectorInsertAndMakeBase" if is_base else "collectorInsertAndMakeBase"
        if tag in out:
            tag = None
        if tag:
            out[tag] = (t, c.lineno, ci.mod.rel)
    tci = prog.cls("WrapperTemplate")
    for attr in ("collector_function_upcast_from_void", "delete_obj", "delete_all_objects", "typdef_collectors"):
        a = prog.find_attr(tci, attr)
        if a is None:
            raise AnalysisError(f"WrapperTemplate.{attr} vanished")
        t = Folder(prog, tci.mod, None, tci).fold(a[1])
        if t is None:
            raise AnalysisError(f"WrapperTemplate.{attr} not foldable")
        # class-level templates are formatted later: parse their placeholders now
        t = t.apply_format([], {}, None)
        t.missing = []
        out[attr] = (t, a[1].lineno, tci.mod.rel)
    return out


def rule_create_register(ctx, rep: Report, rid="H1"):
    rts = routine_templates(ctx)
    n = 0
    for name, (t, line, rel) in sorted(rts.items()):
        txt = _cpp_text(t)
        m = _re.search(r"Shared\s*\*\s*(\w+)\s*=\s*new\s+Shared\s*\(", txt)
        if not m:
            continue
        n += 1
        var = m.group(1)
        inserted = _re.search(r"collector___class_name__\s*\.\s*insert\s*\(\s*" + var + r"\s*\)", txt) is not None
        stored = _re.search(r"\*\s*reinterpret_cast\s*<\s*Shared\s*\*\*\s*>\s*\(\s*mxGetData\s*\(\s*out\[0\]\s*\)\s*\)\s*=\s*" + var, txt) is not None
        if name == "collector_function_upcast_from_void":
            # registration happens in the collector routine the .m constructor calls unconditionally next
            ok_m = _upcast_followed_by_collector(ctx)
            rep.add(rid, "up-cast routine:its new handle is registered by the collector call that unconditionally follows in the .m constructor",
                    stored and ok_m, f"handle stored in out[0]: {stored}; .m sequence ok: {ok_m}", f"{rel}:{line}")
            continue
        rep.add(rid, f"{name} routine:every heap-allocated handle is inserted into the class's collector and returned", inserted and stored,
                f"`{var} = new Shared(...)`: inserted into collector: {inserted}; stored in out[0]: {stored} - a handle that is "
                f"not registered is never freed at unload; one that is not returned is lost immediately", f"{rel}:{line}")
    if n < 2:
        raise AnalysisError(f"{rep.prop}/{rid}: {n} allocating routine templates found, 2 expected")


def _upcast_followed_by_collector(ctx) -> bool:
    # read off the text the constructor emitter produces for a virtual sample class, where it can be run: after the inner
    # `if nargin == 2 ... else <up-cast> end` the collector registration follows at the same depth (in every case)
    from .rules_ids import run_constructor_emitter
    got = run_constructor_emitter(ctx, True, True)
    if got is not None:
        lines = [l for l in got[0].splitlines() if l.strip()]
        up = [i for i, l in enumerate(lines) if _re.search(r"my_ptr\s*=\s*\w+\(\d+,\s*varargin\{2\}\);", l)]
        reg = [i for i, l in enumerate(lines) if _re.search(r"\w+\(\d+,\s*my_ptr\);", l)]
        if len(up) == 1 and len(reg) == 1 and reg[0] > up[0]:
            ind = lambda l: len(l) - len(l.lstrip())          # noqa: E731
            between = lines[up[0] + 1:reg[0]]
            return len(between) == 1 and between[0].strip() == "end" and ind(between[0]) == ind(lines[reg[0]]) and ind(lines[reg[0]]) < ind(lines[up[0]])
        return False
    ci, prog = mw(ctx)
    fn = prog.method("MatlabWrapper", "wrap_class_constructors")
    fo = Folder(prog, ci.mod, fn, ci)
    seq = []
    for st in sorted((s for s in walk_no_nested(fn) if isinstance(s, ast.AugAssign)), key=lambda s: s.lineno):
        t = fo.fold(st.value)
        if t is None:
            continue
        txt = _cpp_text(t)
        gs = guards_of(st, fn, include_exits=False)
        if "my_ptr = __wrapper_name__(__id__, varargin{2})" in txt.replace("{{", "{").replace("}}", "}"):
            seq.append(("upcast", gs, st.lineno))
        if _re.search(r"__wrapper_name__\(__id__, my_ptr\)", txt):
            seq.append(("collector", gs, st.lineno))
    kinds = [k for k, _, _ in seq]
    if kinds != ["upcast", "collector"]:
        return False
    return [g for g, pol in seq[1][1]] == []


def rule_destroy_once(ctx, rep: Report, rid="H2"):
    rts = routine_templates(ctx)
    if "deconstructor" not in rts:
        raise AnalysisError("deconstructor routine template not found")
    t, line, rel = rts["deconstructor"]
    txt = _cpp_text(t)
    toks = _tokens(txt)
    s = " ".join(toks)
    got = _re.search(r"Shared \* (\w+) = \* reinterpret_cast < Shared \*\* > \( mxGetData \( in \[ 0 \] \) \)", s)
    var = got.group(1) if got else None
    ndel = len(_re.findall(r"\bdelete\b", s))
    find = var is not None and f". find ( {var} )" in s
    erase_guarded = _re.search(r"if \( (\w+) != collector___class_name__ \. end \( \) \) \{ collector___class_name__ \. erase \( \1 \) ; \}", s) is not None
    order = var is not None and erase_guarded and s.find("erase") < s.find(f"delete {var}")
    rep.add("H2", "destructor routine:looks the handle up, erases it when found, deletes it exactly once afterwards",
            bool(got) and find and erase_guarded and ndel == 1 and order,
            f"handle read from in[0]: {bool(got)}; find: {find}; guarded erase: {erase_guarded}; delete statements: {ndel}; "
            f"erase before delete: {order}", f"{rel}:{line}")
    chk = 'checkArguments ( "delete___class_name__" , nargout , nargin , 1 )' in s
    rep.add("H2", "destructor routine:takes exactly the handle", chk, "", f"{rel}:{line}", nontrivial=False)
    t2, line2, rel2 = rts["delete_obj"]
    s2 = " ".join(_tokens(_cpp_text(t2)))
    ok2 = "delete * iter ;" in s2 and "collector___class_name__ . erase ( iter ++ )" in s2 and s2.count("delete") == 1 \
        and s2.find("delete * iter") < s2.find("erase ( iter ++ )")
    rep.add("H2", "unload clean-up:each remaining handle is deleted once and removed from its collector", ok2, s2[:160], f"{rel2}:{line2}")


def rule_unload_hook(ctx, rep: Report, rid="H3"):
    rts = routine_templates(ctx)
    n = 0
    for name, (t, line, rel) in sorted(rts.items()):
        txt = _cpp_text(t)
        if ".insert(" not in txt and "new Shared(" not in txt:
            continue
        n += 1
        i_hook = txt.find("mexAtExit(&_deleteAllObjects)")
        i_first = min([i for i in (txt.find(".insert("), txt.find("new Shared(")) if i >= 0])
        rep.add(rid, f"{name} routine:unload hook registered before the first handle is created or inserted",
                0 <= i_hook < i_first, f"mexAtExit at offset {i_hook}, first allocation/insert at {i_first}", f"{rel}:{line}")
    if n < 3:
        raise AnalysisError(f"{rep.prop}/{rid}: {n} registering templates found, 3 expected")
    t, line, rel = rts["delete_all_objects"]
    rep.add(rid, "_deleteAllObjects:splices the per-class clean-up fragments", "__delete_objs__" in _cpp_text(t), "", f"{rel}:{line}",
            nontrivial=False)


def _base_handle_by_evaluation(ctx, rep: Report, rid: str) -> bool:
    """Decides the base-handle obligations by running the routines (rules_ids.base_handle_verdict); False when that is not possible."""
    from .rules_ids import base_handle_verdict
    try:
        v = base_handle_verdict(ctx)
    except AnalysisError:
        v = None
    if v is None:
        return False
    ci, prog = mw(ctx)
    gc = prog.method("MatlabWrapper", "generate_collector_function")
    rep.add(rid, "base handle:with a base class both kinds of routine hand `new SharedBase(*self)` to MATLAB (out[0] / out[1]), without one neither does", not v,
            f"the constructor routines of sample classes run by the interpreter: {v[:3]}: a handle is allocated that MATLAB never receives - and never frees - "
            f"or the .m constructor captures an output that is never produced", f"{ci.mod.rel}:{gc.lineno}")
    return True


def rule_base_handle(ctx, rep: Report, rid="H4"):
    if _base_handle_by_evaluation(ctx, rep, rid):
        return
    rts = routine_templates(ctx)
    n = 0
    for name, (t, line, rel) in sorted(rts.items()):
        if not name.startswith("base:"):
            continue
        n += 1
        s = " ".join(_tokens(_cpp_text(t)))
        m = _re.search(r"out \[ (\d) \] = mxCreateNumericMatrix \( 1 , 1 , mxUINT32OR64_CLASS , mxREAL \) ; "
                       r"\* reinterpret_cast < SharedBase \*\* > \( mxGetData \( out \[ (\d) \] \) \) = new SharedBase \( \* self \)", s)
        want = "1" if name.endswith("constructor") else "0"
        rep.add(rid, f"{name} routine:the base-class handle is heap-allocated from *self and handed to MATLAB in out[{want}]",
                m is not None and m.group(1) == m.group(2) == want and s.count("new SharedBase") == 1,
                s[:200], f"{rel}:{line}")
    if n < 2:
        raise AnalysisError(f"{rep.prop}/{rid}: {n} base-handle fragments found, 2 expected")


# ==========================================================================================
# C06
def _loop_paths_increment(body: List[ast.stmt], counter: str) -> List[int]:
    """Number of `counter += 1` executed along every path through one loop iteration."""
    def walk(stmts, count) -> List[Tuple[int, bool]]:      # (count, iteration ended)
        states = [(count, False)]
        for st in stmts:
            nxt = []
            for c, done in states:
                if done:
                    nxt.append((c, True))
                    continue
                if isinstance(st, ast.AugAssign) and isinstance(st.target, ast.Name) and st.target.id == counter \
                        and isinstance(st.op, ast.Add) and isinstance(st.value, ast.Constant) and st.value.value == 1:
                    nxt.append((c + 1, False))
                elif isinstance(st, (ast.Continue, ast.Break)):
                    nxt.append((c, True))
                elif isinstance(st, ast.If):
                    nxt += walk(st.body, c) + walk(st.orelse, c)
                elif isinstance(st, (ast.For, ast.While)) and any(isinstance(x, ast.AugAssign) and isinstance(x.target, ast.Name)
                                                                   and x.target.id == counter for x in ast.walk(st)):
                    nxt.append((-99, False))      # incremented inside a nested loop: not a per-argument counter
                else:
                    nxt.append((c, False))
            states = nxt
        return states
    return sorted({c for c, _ in walk(body, 0)})


def _args_loop(fn, ap: str):
    """(loop, iterable text in terms of `<ap>.list()`, filtered?) for the loop of fn that walks the argument list -
    directly, through enumerate, or through a local bound to the list / to a comprehension over it."""
    for l in fn.body:
        if not isinstance(l, ast.For):
            continue
        it = l.iter
        wrap = None
        if isinstance(it, ast.Call) and unparse(it.func) == "enumerate" and it.args:
            wrap, it0 = it, it.args[0]
        else:
            it0 = it
        filtered = False
        src = it0
        if isinstance(it0, ast.Name):
            vs = [st.value for st in walk_no_nested(fn) if isinstance(st, ast.Assign) and len(st.targets) == 1
                  and isinstance(st.targets[0], ast.Name) and st.targets[0].id == it0.id]
            if len(vs) == 1:
                src = vs[0]
        if isinstance(src, (ast.ListComp, ast.GeneratorExp)) and len(src.generators) == 1:
            g = src.generators[0]
            filtered = bool(g.ifs) or not (isinstance(src.elt, ast.Name) and isinstance(g.target, ast.Name) and src.elt.id == g.target.id)
            src = g.iter
        if isinstance(src, ast.Call) and unparse(src.func) in ("list", "tuple") and len(src.args) == 1:
            src = src.args[0]
        if unparse(src).replace(" ", "") != f"{ap}.list()":
            continue
        txt = f"{ap}.list()"
        if wrap is not None:
            rest = [unparse(a).replace(" ", "") for a in wrap.args[1:]] + [f"{k.arg}={unparse(k.value)}" for k in wrap.keywords]
            txt = "enumerate(" + ",".join([txt] + [r.replace("start=", "") for r in rest]) + ")"
        return l, txt, filtered
    return None, "", False


def _holder(prog, ci, fn, pname: str, pred):
    """(function, parameter) where the work on `pname` is done: fn itself when pred(fn, pname) holds, else the one helper
    method that fn hands `pname` to (`self.<h>(.., pname, ..)`) for which it holds."""
    if pred(fn, pname):
        return fn, pname
    found = []
    for c in walk_no_nested(fn):
        if isinstance(c, ast.Call) and isinstance(c.func, ast.Attribute) and unparse(c.func.value) == "self":
            h = prog.find_method(ci, c.func.attr)
            if h is None or h[1] is fn:
                continue
            try:
                b = bind_call(h[1], c, drop_self=not any(unparse(d) == "staticmethod" for d in h[1].decorator_list))
            except AnalysisError:
                continue
            for hp, a_ in b.items():
                if isinstance(a_, ast.Name) and a_.id == pname and not hp.startswith("<") and pred(h[1], hp) and (h[1], hp) not in found:
                    found.append((h[1], hp))
    return found[0] if len(found) == 1 else (None, None)


def rule_index_alignment(ctx, rep: Report, rid="M1"):
    ci, prog = mw(ctx)
    n = 0
    for name, start_want in (("_wrap_variable_arguments", 1), ("_wrap_method_check_statement", 1), ("_wrapper_unwrap_arguments", None)):
        fn = prog.method("MatlabWrapper", name)
        fn, ap = _holder(prog, ci, fn, func_params(fn)[1], lambda f_, p_: _args_loop(f_, p_)[0] is not None)
        if fn is None:
            raise AnalysisError(f"{name}: loop over the argument list not found")
        main, it, filtered = _args_loop(fn, ap)
        n += 1
        loc = f"{ci.mod.rel}:{main.lineno}"
        rep.add(rid, f"{name}:positions are counted over the declared argument list itself", not filtered,
                "the loop that numbers the arguments runs over a filtered / transformed copy of the list: an index taken from it is the "
                "position among the *kept* arguments, not the declared position that the C++ side (in[i]) and MATLAB (varargin{i}) use",
                loc, nontrivial=filtered)
        fo = Folder(prog, ci.mod, fn, ci)
        idx_slots = set()
        for c in ast.walk(main):
            if (isinstance(c, ast.Call) and isinstance(c.func, ast.Attribute) and c.func.attr == "format") or isinstance(c, ast.JoinedStr):
                t = fo.fold(c)
                if t is None:
                    continue
                t = t.flat()
                lit = t.literal("@")
                for s in t.slots():
                    i = t.parts.index(s)
                    before = t.parts[i - 1] if i > 0 and isinstance(t.parts[i - 1], str) else ""
                    if before.endswith("varargin{") or before.endswith("in["):
                        idx_slots.add(unparse(s.expr))
        # the index may be handed to a helper that embeds it (self._unwrap_argument(arg, <index>, ...))
        for c in ast.walk(main):
            if isinstance(c, ast.Call) and unparse(c.func) == "self._unwrap_argument" and len(c.args) >= 2:
                idx_slots.add(unparse(c.args[1]))
        ivar0 = main.target.elts[0].id if isinstance(main.target, ast.Tuple) and isinstance(main.target.elts[0], ast.Name) else None
        if it.startswith("enumerate(") and ivar0 in idx_slots:
            ivar = ivar0
            ok = it == f"enumerate({ap}.list(),{start_want})" and idx_slots == {ivar}
            rep.add(rid, f"{name}:position index runs with the arguments (enumerate from 1) and is the one embedded", ok,
                    f"loop {it}; embedded index expressions {sorted(idx_slots)}", loc)
        else:
            # manual counter
            cands = {s for s in idx_slots}
            if len(cands) != 1:
                rep.add(rid, f"{name}:one position counter embedded", False, f"embedded index expressions {sorted(cands)}", loc)
                continue
            counter = next(iter(cands))
            paths = _loop_paths_increment(main.body, counter)
            rep.add(rid, f"{name}:position counter advances exactly once per argument on every path (including `continue`)",
                    paths == [1], f"`{counter}` is incremented {paths} time(s) along the paths of one iteration: after a "
                    f"path that does not advance it, every later argument is checked / unwrapped at the wrong position", loc)
            if start_want is not None:
                init = [unparse(st.value) for st in local_assignments(fn).get(counter, []) if isinstance(st, ast.Assign)]
                rep.add(rid, f"{name}:counter starts at {start_want}", init == [str(start_want)], f"initialised to {init}", loc)
    ua = prog.method("MatlabWrapper", "_unwrap_argument")
    ip = func_params(ua)[2]
    fo = Folder(prog, ci.mod, ua, ci)
    embedded = set()
    nin = 0
    for c in ast.walk(ua):
        if isinstance(c, ast.Call) and isinstance(c.func, ast.Attribute) and c.func.attr == "format":
            t = fo.fold(c)
            if t is None:
                continue
            for s_ in t.slots():
                i = t.parts.index(s_)
                if i > 0 and isinstance(t.parts[i - 1], str) and t.parts[i - 1].endswith("in["):
                    embedded.add(unparse(s_.expr))
                    nin += 1
        elif isinstance(c, ast.JoinedStr):
            vals = c.values
            for j, v in enumerate(vals):
                if isinstance(v, ast.FormattedValue) and j > 0 and isinstance(vals[j - 1], ast.Constant) and str(vals[j - 1].value).endswith("in["):
                    embedded.add(unparse(v.value))
                    nin += 1
    rep.add(rid, "_unwrap_argument:every in[...] of the unwrap statement is the position it was given", embedded == {ip} and nin >= 5,
            f"{nin} in[..] slots bound to {sorted(embedded)}", f"{ci.mod.rel}:{ua.lineno}")
    # the count test uses the length of the same list
    fn = prog.method("MatlabWrapper", "_wrap_method_check_statement")
    ap = func_params(fn)[1]
    fo = Folder(prog, ci.mod, fn, ci)
    t = None
    for st in fn.body:
        if isinstance(st, ast.Assign):
            tt = fo.fold(st.value)
            if tt is not None and "length(varargin) ==" in tt.literal("@"):
                t = tt
    cnt = unparse(inline_locals(fn, t.slots()[0].expr)).replace(" ", "") if t is not None and t.slots() else None
    rep.add(rid, "_wrap_method_check_statement:argument count compared with the length of the same list", cnt in (f"len({ap})", f"len({ap}.list())"),
            f"count <- {cnt}", f"{ci.mod.rel}:{fn.lineno}")
    if n < 3:
        raise AnalysisError(f"{rep.prop}/{rid}: {n} loops")


def _guard_builder_form(ctx, name: str) -> Tuple[List[str], List[Tuple[str, str]]]:
    """Normal form of a MATLAB-side type-check builder: (type lookup chain, [(guard, appended text)])."""
    ci, prog = mw(ctx)
    fn = prog.method("MatlabWrapper", name)
    ap = func_params(fn)[1]
    main = _args_loop(fn, ap)[0]
    if main is None:
        raise AnalysisError(f"{name}: loop over the argument list not found")
    fo = Folder(prog, ci.mod, fn, ci)
    avar = main.target.elts[1].id if isinstance(main.target, ast.Tuple) else main.target.id
    # names
    idx_names = set()
    if isinstance(main.target, ast.Tuple) and unparse(main.iter).startswith("enumerate") and isinstance(main.target.elts[0], ast.Name):
        if main.target.elts[0].id != "_":
            idx_names.add(main.target.elts[0].id)
    for st in fn.body:
        if isinstance(st, ast.Assign) and isinstance(st.value, ast.Constant) and st.value.value == 1:
            idx_names.add(st.targets[0].id)
    type_var = None
    name_var = None
    lookup_helper = None
    for st in main.body:
        if isinstance(st, ast.Assign) and "data_type_param.get" in unparse(st.value):
            type_var = st.targets[0].id
        # the lookup may be delegated: TYPE = self.<helper>(ARG.ctype.typename, ...)
        if isinstance(st, ast.Assign) and isinstance(st.targets[0], ast.Name) and isinstance(st.value, ast.Call) \
                and isinstance(st.value.func, ast.Attribute) and unparse(st.value.func.value) == "self":
            h = prog.find_method(ci, st.value.func.attr)
            if h is not None and "data_type_param.get" in unparse(h[1]):
                type_var = st.targets[0].id
                lookup_helper = (h[1], st.value)
        if isinstance(st, ast.Assign) and unparse(st.value) == f"{avar}.ctype.typename.name":
            name_var = st.targets[0].id

    def ren(txt: str) -> str:
        import re
        for v in idx_names:
            txt = re.sub(rf"\b{v}\b", "IDX", txt)
        if type_var:
            txt = re.sub(rf"\b{type_var}\b", "TYPE", txt)
        if name_var:
            txt = re.sub(rf"\b{name_var}\b", "NAME", txt)
        txt = re.sub(rf"\b{avar}\b", "ARG", txt)
        return txt
    chain = []
    appended = []
    acc = None
    for st in ast.walk(main):
        if isinstance(st, ast.AugAssign) and isinstance(st.op, ast.Add) and isinstance(st.target, ast.Name) \
                and not (isinstance(st.value, ast.Constant) and st.value.value == 1):
            t = fo.fold(st.value)
            if t is None:
                v = st.value
                if isinstance(v, ast.Call) and isinstance(v.func, ast.Attribute) and unparse(v.func.value) in ("self", ci.qual):
                    # a shared helper builds this part of the test: both flavours agree iff they call it alike
                    appended.append((" & ".join(ren(g) for g, pol in guards_of(st, fn, include_exits=False) if pol),
                                     f"<call {v.func.attr}({', '.join(ren(unparse(a)) for a in v.args)})>"))
                continue
            txt = "".join(p if isinstance(p, str) else "<" + ren(unparse(p.expr)) + ">" for p in t.flat().parts)
            gs = " & ".join(ren(g) for g, pol in guards_of(st, fn, include_exits=False) if pol)
            appended.append((gs, txt))
    if lookup_helper is not None:
        # normal form of the helper's lookup: its own local plays TYPE, its first parameter plays ARG.ctype.typename
        hf, hcall = lookup_helper
        hp = [a.arg for a in hf.args.args if a.arg != "self"]
        hv = next((st.targets[0].id for st in ast.walk(hf) if isinstance(st, ast.Assign) and isinstance(st.targets[0], ast.Name)
                   and "data_type_param.get" in unparse(st.value)), None)
        import re as _re2

        def hren(txt):
            if hv:
                txt = _re2.sub(rf"\b{hv}\b", "TYPE", txt)
            if hp:
                txt = _re2.sub(rf"\b{hp[0]}\.name\b", "NAME", txt)
                txt = _re2.sub(rf"\b{hp[0]}\b", "ARG.ctype.typename", txt)
            return _re2.sub(r",\s*is_constructor=[^)]*", "", txt)
        for st in ast.walk(hf):
            if isinstance(st, ast.Assign) and hv and isinstance(st.targets[0], ast.Name) and st.targets[0].id == hv and enclosing(st, ast.If) is None:
                chain.append(hren(unparse(st)))
            elif isinstance(st, ast.If) and hv and hv in unparse(st.test) and "self." in unparse(st) and enclosing(st, ast.If) is None:
                chain.append(f"if {hren(unparse(st.test))}: " + "; ".join(hren(unparse(b)) for b in st.body))
    for st in main.body:
        if lookup_helper is not None:
            break
        if isinstance(st, ast.Assign) and type_var and st.targets[0].id == type_var if isinstance(st, ast.Assign) and isinstance(st.targets[0], ast.Name) else False:
            chain.append(ren(unparse(st)))
        elif isinstance(st, ast.If) and "not_check_type" in unparse(st.test):
            continue            # the skip list (its index bookkeeping is M1's business)
        elif isinstance(st, ast.If) and type_var and type_var in unparse(st.test):
            body = "; ".join(ren(unparse(b)) for b in st.body)
            # the constructor flavour flag is irrelevant when data_type's keys are a subset of data_type_param's
            import re
            body = re.sub(r",\s*is_constructor=[^)]*", "", body)
            chain.append(f"if {ren(unparse(st.test))}: {body}")
    return chain, sorted(appended)


def _dict_literal(mi, v):
    """The dict display a value denotes: the display itself, or dict(NAME) / NAME.copy() / {**NAME} of a module-level one."""
    if isinstance(v, ast.Dict) and v.keys and all(k is not None for k in v.keys):
        return v
    name = None
    if isinstance(v, ast.Call) and unparse(v.func) == "dict" and len(v.args) == 1 and isinstance(v.args[0], ast.Name) and not v.keywords:
        name = v.args[0].id
    elif isinstance(v, ast.Call) and isinstance(v.func, ast.Attribute) and v.func.attr == "copy" and isinstance(v.func.value, ast.Name):
        name = v.func.value.id
    elif isinstance(v, ast.Dict) and len(v.keys) == 1 and v.keys[0] is None and isinstance(v.values[0], ast.Name):
        name = v.values[0].id
    elif isinstance(v, ast.Name):
        name = v.id
    if name is not None:
        for st in mi.tree.body:
            tg = st.targets[0] if isinstance(st, ast.Assign) and len(st.targets) == 1 else (st.target if isinstance(st, ast.AnnAssign) else None)
            if isinstance(tg, ast.Name) and tg.id == name and isinstance(getattr(st, "value", None), ast.Dict):
                return st.value
    return None


def _shape_types(ctx, name: str) -> Set[str]:
    """Type names for which the builder (or a helper / module-level table it uses) has a shape test."""
    ci, prog = mw(ctx)
    fn = prog.method("MatlabWrapper", name)
    fns = [fn]
    for c in ast.walk(fn):
        if isinstance(c, ast.Call) and isinstance(c.func, ast.Attribute) and unparse(c.func.value) in ("self", ci.qual):
            h = prog.find_method(ci, c.func.attr)
            if h is not None and "size(" in unparse(h[1]):
                fns.append(h[1])
    out: Set[str] = set()
    for f in fns:
        if "size(" not in unparse(f):
            continue
        out |= {x.value for x in ast.walk(f) if isinstance(x, ast.Constant) and isinstance(x.value, str)}
        for x in ast.walk(f):
            if isinstance(x, ast.Name):
                d = _dict_literal(ci.mod, x)
                if d is not None:
                    out |= {k.value for k in d.keys if isinstance(k, ast.Constant)}
            elif isinstance(x, ast.Attribute) and isinstance(x.value, ast.Name) and x.value.id == "self" and isinstance(x.ctx, ast.Load):
                # a table kept on the object: `self.shape_checks = {...}` in __init__
                for c_ in prog.mro(ci):
                    init = c_.methods.get("__init__")
                    for st in (walk_no_nested(init) if init is not None else ()):
                        if isinstance(st, ast.Assign) and len(st.targets) == 1 and unparse(st.targets[0]) == unparse(x) and isinstance(st.value, ast.Dict):
                            out |= {k.value for k in st.value.keys if isinstance(k, ast.Constant)}
    return out


def rule_sibling_guards(ctx, rep: Report, rid="M2"):
    ci, prog = mw(ctx)
    if _guard_builders_evaluable(ctx):
        # both builders can be run on sample parameter lists: what they test is compared there (M16 / H18), however they are written
        rep.add(rid, "the two MATLAB-side type-check builders agree (decided by running them on sample parameter lists)", True, "see the evaluation rule", f"{ci.mod.rel}:0",
                nontrivial=False)
        _sibling_guard_tables(ctx, rep, rid, ci, prog)
        return
    a = _guard_builder_form(ctx, "_wrap_variable_arguments")
    b = _guard_builder_form(ctx, "_wrap_method_check_statement")
    rep.add(rid, "the two MATLAB-side type-check builders resolve the MATLAB class of an argument by the same chain", a[0] == b[0] and len(a[0]) >= 3,
            f"_wrap_variable_arguments: {a[0]} ; _wrap_method_check_statement: {b[0]}", f"{ci.mod.rel}:0")
    shapes_ok = all(_shape_types(ctx, n_) >= {"Vector", "Point2", "Point3"} for n_ in ("_wrap_variable_arguments", "_wrap_method_check_statement"))
    rep.add(rid, "the two builders append the same per-argument tests (isa + Vector/Point2/Point3 shape tests)",
            a[1] == b[1] and len(a[1]) >= 2 and any("isa(" in x[1] for x in a[1]) and shapes_ok,
            f"only in constructor/function flavour: {[x for x in a[1] if x not in b[1]][:3]}; only in method flavour: "
            f"{[x for x in b[1] if x not in a[1]][:3]}", f"{ci.mod.rel}:0")
    # the shape tests are selected by the declared type's name (Vector, Point2, Point3), never by the MATLAB class it maps to
    # ('double' for all three and for Matrix and double as well)
    for label, form in (("_wrap_variable_arguments", a), ("_wrap_method_check_statement", b)):
        keyed = []
        for g, txt in form[1]:
            if "size(" in txt:
                keyed.append((g, "NAME" in g and "TYPE" not in g))
            elif txt.startswith("<call "):
                hm = prog.find_method(ci, txt[len("<call "):].split("(", 1)[0])
                if hm is not None and "size(" in unparse(hm[1]):
                    args_txt = txt.split("(", 1)[1]
                    keyed.append((txt, "NAME" in args_txt and "TYPE" not in args_txt))
        rep.add(rid, f"{label}:the shape tests are chosen by the declared type name", bool(keyed) and all(ok_ for _, ok_ in keyed),
                f"{[k for k, ok_ in keyed if not ok_][:2]}: looked up by the MATLAB class ('double') no Vector / Point2 / Point3 parameter gets its size test, "
                f"so a matrix or a vector of another length selects the overload and is read as that type", f"{ci.mod.rel}:{prog.method('MatlabWrapper', label).lineno}")
    _sibling_guard_tables(ctx, rep, rid, ci, prog)


def _sibling_guard_tables(ctx, rep, rid, ci, prog):
    init = prog.method("MatlabWrapper", "__init__")
    tables = {}
    for st in walk_no_nested(init):
        tgt = st.targets[0] if isinstance(st, ast.Assign) else (st.target if isinstance(st, ast.AnnAssign) else None)
        if tgt is not None and unparse(tgt) in ("self.data_type", "self.data_type_param") and st.value is not None:
            d = _dict_literal(ci.mod, st.value)
            if d is not None:
                tables[unparse(tgt)] = {k.value for k in d.keys if isinstance(k, ast.Constant)}
    ok = "self.data_type" in tables and tables["self.data_type"] <= tables.get("self.data_type_param", set())
    rep.add(rid, "type tables:every key of data_type is a key of data_type_param (the constructor flavour of the fallback is unreachable for them)",
            ok, f"data_type - data_type_param = {sorted(tables.get('self.data_type', set()) - tables.get('self.data_type_param', set()))}",
            f"{ci.mod.rel}:{init.lineno}")


def _gc_canon(gc):
    """Canonical names for the key locals of generate_collector_function, found by what they are
    bound to (never by how they are called)."""
    mp: Dict[str, str] = {}
    la = local_assignments(gc)
    for name, sts in la.items():
        for st in sts:
            if not isinstance(st, ast.Assign):
                continue
            v = st.value
            if isinstance(v, ast.Subscript) and isinstance(v.slice, ast.Constant) and v.slice.value == 4:
                mp[name] = "extra"
            if isinstance(v, ast.Call) and unparse(v.func) == "self.wrapper_map.get":
                mp[name] = "collector_func"
    for name, sts in la.items():
        for st in sts:
            if isinstance(st, ast.Assign) and isinstance(st.value, ast.Call) and unparse(st.value.func) == "isinstance" \
                    and isinstance(st.value.args[0], ast.Name) and mp.get(st.value.args[0].id) == "extra":
                k = unparse(st.value.args[1]).split(".")[-1]
                mp[name] = {"Method": "is_method", "StaticMethod": "is_static_method", "Variable": "is_property"}.get(k, name)

    def canon(text: str) -> str:
        for a, b in mp.items():
            text = _re.sub(rf"\b{_re.escape(a)}\b", b, text)
        return text
    return canon


def rule_receiver_offset(ctx, rep: Report, rid="M3"):
    ci, prog = mw(ctx)
    gc = prog.method("MatlabWrapper", "generate_collector_function")
    loc = f"{ci.mod.rel}:{gc.lineno}"
    wua = prog.method("MatlabWrapper", "_wrapper_unwrap_arguments")
    default_start = unparse(wua.args.defaults[0]) if wua.args.defaults else None
    calls = [c for c in ast.walk(gc) if isinstance(c, ast.Call) and unparse(c.func) == "self._wrapper_unwrap_arguments"]

    canon = _gc_canon(gc)

    def role_of(node) -> str:
        gs = [canon(g) for g, pol in guards_of(node, gc, include_exits=False)]
        for g in reversed(gs):
            if "'constructor'" in g:
                return "constructor"
            if "is_method or is_static_method" in g:
                return "method/static"
            if "is_property" in g:
                return "property"
        if any(not pol and "isinstance(collector_func[1]" in canon(g) for g, pol in guards_of(node, gc, include_exits=False)):
            return "function"
        return "?"
    by_role = {}
    for c in calls:
        by_role.setdefault(role_of(c), []).append(c)
    # method / static
    ms = by_role.get("method/static", [])
    ok = False
    detail = ""
    if len(ms) == 1:
        kw = bound_args(wua, ms[0])
        start = canon(unparse(kw["arg_id"])).replace(" ", "") if "arg_id" in kw else default_start
        fo = Folder(prog, ci.mod, gc, ci)
        tpl = None
        for st in ast.walk(gc):
            if isinstance(st, ast.AugAssign):
                t = fo.fold(st.value)
                if t is not None and t.slot("min1") is not None and t.slot("num_args") is not None and t.slot("body_args") is not None:
                    tpl = t
        if tpl is not None:
            min1 = canon(unparse(tpl.slot("min1").val)).replace(" ", "")
            na = canon(unparse(tpl.slot("num_args").val)).replace(" ", "")
            so = [st for st in ast.walk(gc) if isinstance(st, ast.Assign) and "unwrap_shared_ptr" in unparse(st.value) and "in[0]" in unparse(st.value)
                  and role_of(st) == "method/static"]
            so_guard = canon([g for g, pol in guards_of(so[0], gc, include_exits=False) if pol][-1]) if so else None
            ok = start == "1ifis_methodelse0" and min1 == "'-1'ifis_methodelse''" and na == f"len({canon(unparse(ms[0].args[0]))}.list())" \
                and so_guard == "is_method"
            detail = f"unwrap start {start}; nargin adjustment {min1}; expected count {na}; receiver unwrapped under {so_guard}"
    rep.add(rid, "method vs static routine:receiver in in[0] <=> arguments from in[1] <=> nargin-1, expected count = len of the unwrapped list", ok, detail, loc)
    # constructor & function: start 0, no adjustment
    for role in ("constructor", "function"):
        cs = by_role.get(role, [])
        ok = len(cs) >= 1 and all("arg_id" not in bound_args(wua, c) for c in cs) and default_start == "0"
        rep.add(rid, f"{role} routine:arguments unwrapped from in[0]", ok,
                f"calls {[unparse(c)[:70] for c in cs]}, default start {default_start}", loc)
    # checkArguments of the function routine
    txt = unparse(gc)
    rep.add(rid, "function routine:expected count is the length of the unwrapped list",
            "checkArguments(\"{function_name}\",nargout,nargin,{len});" in txt.replace("\\n", "") or
            ("nargin,{len}" in txt and "len=len(collector_func[1].args.list())" in txt.replace(" ", "").replace("len=len", "len=len")),
            "", loc, nontrivial=False)
    # property
    ua = [c for c in ast.walk(gc) if isinstance(c, ast.Call) and unparse(c.func) == "self._unwrap_argument" and role_of(c) == "property"]
    kw = {k_: unparse(v_) for k_, v_ in bound_args(prog.method("MatlabWrapper", "_unwrap_argument"), ua[0]).items()} if ua else {}
    # the count check of the property routines, read off the emitted text `checkArguments("<name>",nargout,nargin<adj>,<count>);`
    # (format call or f-string alike; a constant field is part of the text)
    fo_p = Folder(prog, ci.mod, gc, ci)
    nums, mins = [], set()
    for site in ast.walk(gc):
        if not (isinstance(site, ast.JoinedStr) or (isinstance(site, ast.Call) and isinstance(site.func, ast.Attribute) and site.func.attr == "format")):
            continue
        if role_of(site) != "property":
            continue
        try:
            tp = fo_p.fold(site)
        except AnalysisError:
            tp = None
        if tp is None:
            continue
        text = "".join(q if isinstance(q, str) else "\u27e6" + (repr(q.val.value) if isinstance(q.val, ast.Constant) else "?") + "\u27e7" for q in tp.flat().parts)
        for m_ in re.finditer(r'checkArguments\("[^"]*",nargout,nargin(?:\u27e6([^\u27e7]*)\u27e7|([-+]\d+))?,(?:\u27e6([^\u27e7]*)\u27e7|(\d+))\)', text):
            adj = m_.group(1) if m_.group(1) is not None else (repr(m_.group(2)) if m_.group(2) is not None else "''")
            cnt = m_.group(3) if m_.group(3) is not None else m_.group(4)
            key = (site.lineno, m_.start())
            nums.append(cnt)
            mins.add(adj)
    nums = sorted(nums)
    mins = sorted(mins)
    rep.add(rid, "property routines:value read from in[1]; getter expects 0, setter 1 argument besides the receiver",
            kw.get("arg_id") == "1" and nums == ["0", "1"] and mins == ["'-1'"], f"value index {kw.get('arg_id')}, expected counts {nums}, nargin adjustment {mins}", loc)
    # .m side: is `this` passed?
    checks = [
        ("wrap_class_methods", "method .m call passes the receiver then the arguments", r"\(@, this, varargin\{:\}\)"),
        ("wrap_static_methods", "static .m call passes the arguments only", r"\(@, varargin\{:\}\)"),
        ("wrap_global_function", "function .m call passes the arguments only", r"_wrapper\(@, varargin\{:\}\)"),
        ("wrap_class_properties", "getter .m call passes the receiver only", r"\(@, this\);"),
        ("wrap_class_properties", "setter .m call passes the receiver and the value", r"\(@, this, value\);"),
        ("wrap_class_deconstructor", "delete .m call passes the handle only", r"\(@, obj\.ptr_@\);"),
    ]
    for meth, what, pat in checks:
        fn = prog.method("MatlabWrapper", meth)
        fo = Folder(prog, ci.mod, fn, ci)
        hit = False
        for c in ast.walk(fn):
            if isinstance(c, ast.Call) and isinstance(c.func, ast.Attribute) and c.func.attr == "format":
                t = fo.fold(c)
                if t is not None and _re.search(pat, t.literal("@")):
                    hit = True
        rep.add(rid, f"{what}", hit, f"no template of {meth} matches {pat}", f"{ci.mod.rel}:{fn.lineno}")
    # constructor .m call: id then the listed arguments
    fn = prog.method("MatlabWrapper", "wrap_class_constructors")
    fo = Folder(prog, ci.mod, fn, ci)
    hit = False
    for c in ast.walk(fn):
        if isinstance(c, ast.Call) and isinstance(c.func, ast.Attribute) and c.func.attr == "format":
            t = fo.fold(c)
            if t is not None and t.slot("var_arg") is not None:
                lit = t.literal("@")
                hit = "@@(@@@);" in lit.replace(" ", "") and unparse(t.slot("var_arg").val).startswith("self._wrap_list_variable_arguments(")
    rep.add(rid, "constructor .m call passes the id then varargin{1..n}", hit, "", f"{ci.mod.rel}:{fn.lineno}")


def rule_defaults(ctx, rep: Report, rid="M4"):
    ci, prog = mw(ctx)
    fn = prog.method("MatlabWrapper", "_expand_default_arguments")
    loc = f"{ci.mod.rel}:{fn.lineno}"
    mp, sb = func_params(fn)[0], func_params(fn)[1]
    body = [st for st in fn.body if not isinstance(st, (ast.FunctionDef, ast.Expr))]
    backup = [st for st in body if isinstance(st, ast.If) and unparse(st.test) == sb and any(".backup" in unparse(x) for x in st.body)]
    removes = [c for c in walk_no_nested(fn) if isinstance(c, ast.Call) and isinstance(c.func, ast.Attribute) and c.func.attr in ("remove", "pop")]
    ok_backup = len(backup) == 1 and bool(removes) and all(backup[0].lineno < r.lineno for r in removes)
    rep.add(rid, "defaults:the full argument list is saved once, by the outermost call, before anything is removed", ok_backup,
            f"backup statement(s): {[unparse(b.test) for b in backup]}; removals at lines {[r.lineno for r in removes]}", loc)
    # the argument that is peeled off is the last one, only if it has a default, one per call
    la_ = local_assignments(fn)

    def is_arg_list(e) -> bool:
        e = inline_locals(fn, e)
        return unparse(e).replace(" ", "") == f"{mp}.args.list()"
    cand, how = None, ""
    for l in [x for x in body if isinstance(x, ast.For)]:
        it = l.iter
        if isinstance(it, ast.Call) and unparse(it.func) == "reversed" and it.args and is_arg_list(it.args[0]) and isinstance(l.target, ast.Name) \
                and isinstance(l.body[-1], ast.Break):
            cand, how, scope = l.target.id, "first item of reversed(args), loop left after one iteration", l
    if cand is None:
        for i in [x for x in body if isinstance(x, ast.If)]:
            subs = [x for x in ast.walk(i.test) if isinstance(x, ast.Subscript) and isinstance(x.slice, ast.UnaryOp) and isinstance(x.slice.op, ast.USub)
                    and isinstance(x.slice.operand, ast.Constant) and x.slice.operand.value == 1 and is_arg_list(x.value)]
            if subs:
                cand_expr = unparse(subs[0])
                named = [n_ for n_, sts in la_.items() for st in sts if isinstance(st, ast.Assign) and unparse(st.value) == cand_expr]
                cand, how, scope = (named[0] if named else cand_expr), "args[-1]", i
    ok_loop, detail = False, "no statement that looks at the last argument was found"
    if cand is not None:
        tests = [unparse(t.test if isinstance(t, ast.If) else t).replace(" ", "") for t in ast.walk(scope) if isinstance(t, ast.If)]
        tested = any(f"{cand}.defaultisnotNone" in t.replace(unparse(inline_locals(fn, ast.parse(cand, mode='eval').body)).replace(" ", ""), cand) or
                     ".defaultisnotNone" in t for t in tests)
        rec = [c for c in ast.walk(scope) if isinstance(c, ast.Call) and unparse(c.func).endswith("_expand_default_arguments")]
        rec_ok = len(rec) == 1 and unparse(bound_args(fn, rec[0]).get(sb, ast.Constant(value=None))) == "False"
        rem = [c for c in ast.walk(scope) if isinstance(c, ast.Call) and isinstance(c.func, ast.Attribute) and c.func.attr == "remove"
               and unparse(c.args[0]) == cand and is_arg_list(c.func.value)]
        ok_loop = tested and rec_ok and len(rem) == 1
        detail = f"candidate `{cand}` ({how}); tested for a default: {tested}; recursion keeps the backup: {rec_ok}; removes the candidate: {len(rem) == 1}"
    rep.add(rid, "defaults:peels defaulted arguments from the tail, one arity per call, stopping at the first non-defaulted one", ok_loop, detail, loc)
    # (what the call receives per parameter is decided path by path in rule_call_arguments_per_parameter)


def _explicit_names_var(fn, ap) -> str:
    for st in walk_no_nested(fn):
        if isinstance(st, ast.Assign) and isinstance(st.value, ast.ListComp) and unparse(st.value.generators[0].iter) == f"{ap}.list()" \
                and unparse(st.value.elt).endswith(".name"):
            return st.targets[0].id
    return "?"


def rule_one_id_per_arity(ctx, rep: Report, rid="M5"):
    ci, prog = mw(ctx)
    n = 0
    for meth in ("wrap_class_constructors", "wrap_class_methods", "wrap_static_methods", "wrap_global_function"):
        fn = prog.method("MatlabWrapper", meth)
        # innermost loops over overloads
        allocs = []
        for c in walk_no_nested(fn):
            if isinstance(c, ast.Call) and unparse(c.func) == "self._update_wrapper_id":
                tup = c.args[0] if c.args else next((k.value for k in c.keywords if k.arg == "collector_function"), None)
                if isinstance(tup, ast.Tuple):
                    allocs.append((c, tup))
        per_overload = []
        for c, tup in allocs:
            payload = tup.elts[3] if len(tup.elts) == 4 else None
            l = enclosing(c, ast.For)
            if l is None:
                continue
            lv = {x.id for x in ast.walk(l.target) if isinstance(x, ast.Name)}
            pv = {x.id for x in ast.walk(payload) if isinstance(x, ast.Name)} if payload is not None else set()
            ov = {x.id for x in ast.walk(tup.elts[1]) if isinstance(x, ast.Name)}
            if lv & (pv | ov):
                per_overload.append((c, l))
        n += len(per_overload)
        ok = len(per_overload) >= 1
        # the overload list comes from the default expansion (directly, or through _group_methods in the caller)
        src_ok = "_expand_default_arguments" in unparse(fn) or "_group" in unparse(fn) or meth == "wrap_global_function"
        rep.add(rid, f"{meth}:every arity of the expanded overload list allocates its own gateway id inside the loop over overloads",
                ok and src_ok, f"{len(per_overload)} allocation(s) inside overload loops", f"{ci.mod.rel}:{fn.lineno}")
    gm = prog.method("MatlabWrapper", "_group_methods")
    # every contribution to the grouped output is the default expansion of a method, never the raw method
    contrib = []
    for c in ast.walk(gm):
        if isinstance(c, ast.Call) and isinstance(c.func, ast.Attribute) and c.func.attr in ("append", "extend", "insert") and c.args:
            contrib.append(c.args[-1])
        elif isinstance(c, ast.AugAssign) and isinstance(c.op, ast.Add):
            contrib.append(c.value)
        elif isinstance(c, ast.Return) and isinstance(c.value, (ast.ListComp, ast.GeneratorExp)):
            contrib.append(c.value.elt)
    def pure(v, depth=4):
        """v is the complete default expansion of one method: the expansion call itself, a local bound only to
        such values, or a concatenation (sum/+) of them; any filter, slice or other reshaping is not."""
        if depth <= 0:
            return False
        if isinstance(v, ast.Call) and unparse(v.func).endswith("_expand_default_arguments"):
            return True
        if isinstance(v, ast.Name):
            defs = [st.value for st in ast.walk(gm) if isinstance(st, ast.Assign) and any(isinstance(t, ast.Name) and t.id == v.id for t in st.targets)]
            return bool(defs) and all(pure(d, depth - 1) for d in defs)
        if isinstance(v, ast.BinOp) and isinstance(v.op, ast.Add):
            return pure(v.left, depth - 1) and pure(v.right, depth - 1)
        if isinstance(v, ast.Call) and unparse(v.func) == "sum" and v.args and isinstance(v.args[0], (ast.GeneratorExp, ast.ListComp)):
            g = v.args[0]
            return pure(g.elt, depth - 1) and not any(c.ifs for c in g.generators)
        return False
    expanded = [pure(v) for v in contrib]
    rep.add(rid, "_group_methods:every method is expanded into its arities (first occurrence and later overloads alike)",
            bool(contrib) and all(expanded), f"{sum(expanded)} of {len(contrib)} contributions to the grouped list go through "
            "_expand_default_arguments", f"{ci.mod.rel}:{gm.lineno}")
    if n < 4:
        raise AnalysisError(f"{rep.prop}/{rid}: {n} per-overload allocation sites")


def rule_return_shapes(ctx, rep: Report, rid="M6"):
    ci, prog = mw(ctx)
    rc = prog.method("MatlabWrapper", "_return_count")
    txt = unparse(rc.body[-1]).replace(" ", "")
    rep.add(rid, "_return_count:2 iff a second return type is present", txt == f"return1if{func_params(rc)[0]}.type2==''else2", txt,
            f"{ci.mod.rel}:{rc.lineno}")
    fn = prog.method("MatlabWrapper", "wrap_collector_function_return")
    top = [i for i in fn.body if isinstance(i, ast.If)]
    shape_ok = False
    detail = ""
    for i in top:
        if "!= 'void'" in unparse(i.test):
            inner = [x for x in i.body if isinstance(x, ast.If)]
            if inner:
                t1 = unparse(inner[0].test).replace(" ", "")
                t2 = unparse(inner[0].orelse[0].test).replace(" ", "") if inner[0].orelse and isinstance(inner[0].orelse[0], ast.If) else ""
                calls2 = [c for c in ast.walk(inner[0].orelse[0]) if isinstance(c, ast.Call) and unparse(c.func) == "self.wrap_collector_function_return_types"] \
                    if t2 else []
                idxs = [unparse(c.args[1]) for c in calls2]
                srcs = [unparse(inline_locals(fn, c.args[0])) for c in calls2]
                void_branch = any(isinstance(s, ast.AugAssign) and "';'" in unparse(s.value) for s in i.orelse)
                shape_ok = t1.endswith("==1") and t2.endswith("==2") and idxs == ["0", "1"] and \
                    srcs[0].endswith("return_type.type1") and srcs[1].endswith("return_type.type2") and void_branch
                detail = f"tests {t1}, {t2}; pair slots {list(zip(srcs, idxs))}; void emits the bare call: {void_branch}"
    rep.add(rid, "return dispatch:void -> bare call; one value -> out[0]; pair -> first/second to out[0]/out[1]", shape_ok, detail,
            f"{ci.mod.rel}:{fn.lineno}")
    rt = prog.method("MatlabWrapper", "wrap_collector_function_return_types")
    p = func_params(rt)[2]
    t = unparse(rt)
    def picks_first_for_zero(x) -> bool:
        if not (isinstance(x, ast.IfExp) and isinstance(x.body, ast.Constant) and isinstance(x.orelse, ast.Constant)):
            return False
        test = unparse(inline_locals(rt, x.test)).replace(" ", "")
        pair = (x.body.value, x.orelse.value)
        return (pair == ("first", "second") and test in (f"{p}==0", f"not{p}")) or \
            (pair == ("second", "first") and test in (f"{p}!=0", f"{p}==1", f"{p}"))
    sel = [x for x in ast.walk(rt) if picks_first_for_zero(x)]
    # ... or the same choice written as an if/else statement that binds one local
    sel += [v for v in (value_def(rt, nm) for nm in sorted(local_assignments(rt))) if v is not None and not any(v is x for x in ast.walk(rt))
            and picks_first_for_zero(v)]
    # the output slot is indexed by the same position: `out[<p>]`, built by concatenation, format or f-string
    fo_ = Folder(prog, ci.mod, rt, ci)
    indexed = False
    for e in ast.walk(rt):
        if isinstance(e, (ast.BinOp, ast.JoinedStr)) or (isinstance(e, ast.Call) and isinstance(e.func, ast.Attribute) and e.func.attr == "format"):
            try:
                tt = fo_.fold(e)
            except AnalysisError:
                tt = None
            if tt is None:
                continue
            parts = tt.flat().parts
            for i_, q in enumerate(parts):
                if isinstance(q, str) and q.endswith("out[") and i_ + 1 < len(parts) and not isinstance(parts[i_ + 1], str) \
                        and unparse(parts[i_ + 1].expr).replace(" ", "") in (p, f"str({p})"):
                    indexed = True
    ok = len(sel) == 1 and indexed
    rep.add(rid, "pair slots:element k of the pair goes to out[k] (first -> 0, second -> 1)", ok, "", f"{ci.mod.rel}:{rt.lineno}")
    fv = prog.method("MatlabWrapper", "_format_varargout")
    t = unparse(fv)
    rep.add(rid, "MATLAB side:no output for void, one for a single value, two for a pair",
            "'varargout{1} = '" in t and "'[ varargout{1} varargout{2} ] = '" in t and "== 'void'" in t, "", f"{ci.mod.rel}:{fv.lineno}",
            nontrivial=False)


def _decision_chain(fn) -> List[Tuple[Optional[ast.AST], List[ast.stmt]]]:
    """The cases of a function that decides by the first test that holds, in order: (test, statements of the case), the
    default last with test None.  Two spellings are read alike: an if / elif / else chain, and a run of
    `if <test>: ... return` guard clauses followed by the default statements."""
    out: List[Tuple[Optional[ast.AST], List[ast.stmt]]] = []
    body = [st for st in fn.body if not (isinstance(st, ast.Expr) and isinstance(st.value, ast.Constant))]
    i = next((k for k, st in enumerate(body) if isinstance(st, ast.If)), None)
    if i is None:
        return out
    node = body[i]
    if node.orelse:
        # if / elif / else chain
        while isinstance(node, ast.If):
            out.append((node.test, node.body))
            if node.orelse and not (len(node.orelse) == 1 and isinstance(node.orelse[0], ast.If)):
                out.append((None, node.orelse))
                break
            node = node.orelse[0] if node.orelse else None
        return out
    k = i
    while k < len(body) and isinstance(body[k], ast.If) and not body[k].orelse and body[k].body and isinstance(body[k].body[-1], ast.Return):
        out.append((body[k].test, body[k].body))
        k += 1
    if k < len(body):
        out.append((None, body[k:]))
    return out


def rule_marshalling_table(ctx, rep: Report, rid="M7"):
    ci, prog = mw(ctx)
    ua = prog.method("MatlabWrapper", "_unwrap_argument")
    chain = []
    for test, body in _decision_chain(ua):
        btxt = " ".join(unparse(b) for b in body)
        if test is None:
            fn_used = "unwrap<" if ("unwrap<" in btxt or "'unwrap< " in btxt) else "?"
            chain.append(("value", fn_used, False))
            continue
        t = unparse(test)
        kind = "enum" if "is_enum" in t else "ref" if "is_ref" in t else "ptr" if "self.is_ptr" in t and "is_shared_ptr" not in t else \
            "shared" if "is_shared_ptr" in t else "?"
        fn_used = next((f for f in ("unwrap_enum", "unwrap_shared_ptr", "unwrap_ptr", "unwrap<") if f in btxt), "?")
        deref = "'*unwrap_shared_ptr" in btxt
        chain.append((kind, fn_used, deref))
    want = [("enum", "unwrap_enum", False), ("ref", "unwrap_shared_ptr", True), ("ptr", "unwrap_ptr", False),
            ("shared", "unwrap_shared_ptr", False), ("value", "unwrap<", False)]
    rep.add(rid, "unwrap table:enum, reference, raw pointer, shared/object, value - in this priority, each with its unwrap function", chain == want,
            f"found {chain}", f"{ci.mod.rel}:{ua.lineno}")
    # (the `*` of the call expression is decided path by path in rule_call_arguments_per_parameter)
    # every role that unwraps arguments supplies the enum-resolution context
    gc = prog.method("MatlabWrapper", "generate_collector_function")
    n = 0
    for c in sorted((x for x in ast.walk(gc) if isinstance(x, ast.Call) and unparse(x.func) in (
            "self._wrapper_unwrap_arguments", "self._unwrap_argument", "self.wrap_collector_function_return",
            "self.wrap_collector_property_return")), key=lambda x: x.lineno):
        n += 1
        fn = prog.method("MatlabWrapper", c.func.attr)
        try:
            b = bind_call(fn, c, drop_self=True)
        except AnalysisError as e:
            rep.add(rid, f"context:{c.func.attr}", False, str(e), f"{ci.mod.rel}:{c.lineno}")
            continue
        ctxp = "instantiated_class"
        canon7 = _gc_canon(gc)
        gs = [canon7(g) for g, pol in guards_of(c, gc, include_exits=False)]
        role = "free function" if any((not pol) and "isinstance(collector_func[1]" in canon7(g) for g, pol in guards_of(c, gc, include_exits=False)) else \
            next((r for r in ("constructor", "property", "method/static") if any(r.split("/")[0] in g or ("is_method" in g and r == "method/static") for g in gs)), "class member")
        ok = ctxp in b and not (isinstance(b[ctxp], ast.Constant) and b[ctxp].value is None)
        rep.add(rid, f"enum context:{role}:{c.func.attr}", ok,
                f"`{unparse(c)[:70]}` passes no class/namespace context, so is_enum() is never true for this role: an enum "
                f"parameter of a free function is unwrapped with unwrap_shared_ptr<Enum> and returned through wrap_shared_ptr, "
                f"while the same signature as a method uses unwrap_enum / wrap_enum", f"{ci.mod.rel}:{c.lineno}")
    if n < 6:
        raise AnalysisError(f"{rep.prop}/{rid}: {n} unwrap/return call sites in generate_collector_function, 6 expected")



def _lambda_body(e):
    """Normal form of a key function: body of a one-parameter lambda with the parameter renamed."""
    if isinstance(e, ast.Lambda) and len(e.args.args) == 1:
        p = e.args.args[0].arg
        b = clone_expr(e.body)
        for n in ast.walk(b):
            if isinstance(n, ast.Name) and n.id == p:
                n.id = "_"
        return unparse(b)
    return unparse(e)


def rule_group_by_name(ctx, rep: Report, rid="M5"):
    """All overloads of one name end up in one group (one .m function, one chain of arity tests):
    the group is looked up by name among *all* groups built so far, not only the previous one."""
    ci, prog = mw(ctx)
    fn = prog.method("MatlabWrapper", "_group_methods")
    loop = next((l for l in fn.body if isinstance(l, ast.For)), None)
    if loop is None:
        # itertools.groupby merges *consecutive* equal keys only: sound iff its input is sorted by the same key
        gb = [c for c in ast.walk(fn) if isinstance(c, ast.Call) and (dotted(c.func) or "").split(".")[-1] == "groupby"]
        if not gb:
            raise AnalysisError("_group_methods: neither a grouping loop nor a groupby call found")
        for c in gb:
            src = c.args[0] if c.args else None
            key = next((k.value for k in c.keywords if k.arg == "key"), c.args[1] if len(c.args) > 1 else None)
            skey = None
            if isinstance(src, ast.Call) and unparse(src.func) == "sorted":
                skey = next((k.value for k in src.keywords if k.arg == "key"), None)
            same = key is not None and skey is not None and _lambda_body(key) == _lambda_body(skey)
            rep.add(rid, "_group_methods:overloads are gathered by name across the whole list (name -> group table)", same,
                    "groupby() merges only consecutive items with equal names and its input is not sorted by that name here: "
                    "overloads of one free function separated by another declaration form two groups, the second <name>.m "
                    "overwrites the first and the ids of the first group have no call site", f"{ci.mod.rel}:{c.lineno}")
        return
    if not isinstance(loop.target, ast.Name):
        raise AnalysisError("_group_methods: loop target is not a plain name")
    mv = loop.target.id
    dicts = [st.targets[0].id for st in fn.body if isinstance(st, ast.Assign) and isinstance(st.value, ast.Dict) and not st.value.keys
             and isinstance(st.targets[0], ast.Name)]
    keyed = False
    for d in dicts:
        reads = [c for c in ast.walk(loop) if (isinstance(c, ast.Call) and unparse(c.func) in (f"{d}.get", f"{d}.setdefault") and c.args
                                                and unparse(c.args[0]) == f"{mv}.name")
                 or (isinstance(c, ast.Compare) and unparse(c.left) == f"{mv}.name" and unparse(c.comparators[0]) == d)
                 or (isinstance(c, ast.Subscript) and unparse(c.value) == d and unparse(c.slice) == f"{mv}.name" and isinstance(c.ctx, ast.Load))]
        writes = [c for c in ast.walk(loop) if isinstance(c, ast.Subscript) and unparse(c.value) == d and unparse(c.slice) == f"{mv}.name"
                  and isinstance(c.ctx, ast.Store)] + [c for c in ast.walk(loop) if isinstance(c, ast.Call) and unparse(c.func) == f"{d}.setdefault"]
        keyed = keyed or (bool(reads) and bool(writes))
    last_only = any(isinstance(x, ast.Subscript) and isinstance(x.slice, ast.UnaryOp) and unparse(x.slice) == "-1" for t in
                    [i.test for i in ast.walk(loop) if isinstance(i, ast.If)] for x in ast.walk(t))
    rep.add(rid, "_group_methods:overloads are gathered by name across the whole list (name -> group table)", keyed and not last_only,
            "the group of an overload is decided from the previous group only: overloads of one free function that are "
            "separated by another declaration form two groups with the same name, the second <name>.m overwrites the "
            "first, and the ids of the first group have no call site" if last_only or not keyed else "", f"{ci.mod.rel}:{fn.lineno}")


def rule_return_ownership(ctx, rep: Report, rid="H6"):
    """What a routine hands to wrap_shared_ptr (and to the `std::shared_ptr<T> shared(...)` of the ignored-
    namespace return) becomes a MATLAB handle that `delete` and the unload hook will free.  It is therefore
    either the callee's own shared pointer, passed through, or a std::make_shared copy of the returned value -
    never a shared_ptr constructed around an address (`std::shared_ptr<T>(&x)`, `.get()`, a cast): such a handle
    frees an object owned by somebody else, and twice when two handles adopt it."""
    ci, prog = mw(ctx)
    n = 0
    for name in ("_collector_return", "wrap_collector_function_return_types"):
        fn = prog.method("MatlabWrapper", name)
        fo = Folder(prog, ci.mod, fn, ci)
        sinks: List[Tuple[ast.AST, ast.AST]] = []      # (site, expression handed over)
        for c in ast.walk(fn):
            if isinstance(c, ast.Call) and isinstance(c.func, ast.Attribute) and c.func.attr == "format":
                t = fo.fold(c)
                if t is None:
                    continue
                for i, p in enumerate(t.parts):
                    if isinstance(p, str) and p.rstrip().endswith("wrap_shared_ptr(") and i + 1 < len(t.parts) \
                            and isinstance(t.parts[i + 1], Slot) and t.parts[i + 1].expr is not None:
                        sinks.append((c, t.parts[i + 1].expr))
                    elif isinstance(p, str) and "wrap_shared_ptr(" in p and not p.rstrip().endswith("wrap_shared_ptr("):
                        arg = p.split("wrap_shared_ptr(", 1)[1]
                        sinks.append((c, ast.Constant(value=arg.split(",")[0])))
            if isinstance(c, ast.Call) and unparse(c.func) == "self.wrap_collector_function_shared_return" and len(c.args) >= 2:
                sinks.append((c, c.args[1]))
        for site, e in sinks:
            vals = values_of_local(fn, e)
            for v in vals:
                n += 1
                t = fo.fold(v)
                if t is None:
                    # a bare expression: the callee's result text handed through
                    form, ok = f"`{unparse(v)[:40]}` (passed through)", isinstance(v, ast.Name) and v.id in func_params(fn)
                else:
                    lit = t.deep_literal("§").split(',"')[0]
                    passthrough = bool(lit) and all(ch.isalnum() or ch in "_.§" for ch in lit)
                    copy_ = lit.startswith("std::make_shared<") and lit.count("(") == 1 and "&" not in lit
                    form, ok = f"`{lit[:60]}`", passthrough or copy_
                rep.add(rid, f"return ownership:{name}:{unparse(v)[:50]}", ok,
                        f"{form} is handed to MATLAB as an owning handle but is neither the callee's own shared pointer nor a "
                        f"std::make_shared copy: deleting the handle (or unloading) frees an object that the handle does not own, "
                        f"and two handles made this way free it twice", f"{ci.mod.rel}:{getattr(v, 'lineno', site.lineno)}")
    # the template used for ignored-namespace returns builds its shared_ptr from exactly the expression passed in
    tpl = prog.find_attr(prog.cls("WrapperTemplate"), "collector_function_shared_return")
    t = Folder(prog, tpl[0].mod, None, tpl[0]).fold(tpl[1]) if tpl else None
    lit = " ".join(t.literal("§").split()) if t is not None else ""
    rep.add(rid, "return ownership:collector_function_shared_return:copies the shared pointer it is given",
            "std::shared_ptr<{name}> shared({shared_obj});" in lit.replace("§", "") or "shared({shared_obj})" in lit, f"template {lit[:120]!r}",
            f"{tpl[0].mod.rel}:{tpl[1].lineno}" if tpl else "")
    if n < 4:
        raise AnalysisError(f"{rep.prop}/{rid}: only {n} values handed to wrap_shared_ptr found (4 expected)")


def values_of_local(fn, e: ast.AST) -> List[ast.AST]:
    """All values a local name is assigned in fn (the expression itself when it is not a local)."""
    if isinstance(e, ast.Name) and e.id not in func_params(fn):
        vals = [st.value for st in local_assignments(fn).get(e.id, []) if isinstance(st, ast.Assign)]
        if vals:
            return sorted(vals, key=lambda v: v.lineno)
    return [e]


def rule_base_handle_pairing(ctx, rep: Report, rid="H4"):
    """The generated .m constructor captures a second output (`base_ptr`) and forwards it to the parent's constructor
    exactly when the class 'has a parent'; the C++ constructor routine and the collectorInsertAndMakeBase routine
    allocate `new SharedBase(*self)` exactly when the class 'has a parent'.  All three must ask the *same* question
    of the class: where they differ (e.g. one of them looks through the ignore list and another does not) a handle
    is allocated that MATLAB never receives - and never frees - or a captured output is never produced."""
    ci, prog = mw(ctx)
    from .rules_ids import base_handle_verdict
    try:
        if base_handle_verdict(ctx) is not None:
            rep.add(rid, "base handle:the .m constructor and both C++ routines decide 'has a parent' by the same test of the class", True,
                    "decided by running the routines for classes with and without a base (see the base-handle obligation); the .m side is I9's", f"{ci.mod.rel}:0",
                    nontrivial=False)
            return
    except AnalysisError:
        pass
    from .prog import inline_locals, clone_expr
    wic = prog.method("MatlabWrapper", "wrap_instantiated_class")
    wcc = prog.method("MatlabWrapper", "wrap_class_constructors")
    gc = prog.method("MatlabWrapper", "generate_collector_function")

    def truth_subject(test: ast.AST) -> ast.AST:
        """X for tests `X`, `X != ''`, `X is not None`, `bool(X)`"""
        if isinstance(test, ast.Compare) and len(test.ops) == 1 and isinstance(test.ops[0], (ast.NotEq, ast.IsNot)) \
                and isinstance(test.comparators[0], ast.Constant) and test.comparators[0].value in ("", None):
            return test.left
        if isinstance(test, ast.Call) and unparse(test.func) == "bool" and len(test.args) == 1:
            return test.args[0]
        return test

    def canon(e: ast.AST, subst: Dict[str, str]) -> str:
        txt = unparse(e)
        for k in sorted(subst, key=len, reverse=True):
            txt = _re.sub(rf"(?<![\w.]){_re.escape(k)}(?![\w(])", subst[k], txt)
        return txt.replace(" ", "")
    forms: Dict[str, Set[str]] = {}
    # --- .m side: the parameter that decides `base_ptr`
    call = next((c for c in ast.walk(wic) if isinstance(c, ast.Call) and unparse(c.func) == "self.wrap_class_constructors"), None)
    if call is None:
        raise AnalysisError("wrap_instantiated_class: call of wrap_class_constructors not found")
    b = bind_call(wcc, call, drop_self=True)
    cls_param_wic = func_params(wic)[1]
    m_tests = []
    for x in ast.walk(wcc):
        tpl_txt = None
        if isinstance(x, ast.Constant) and isinstance(x.value, str) and "base_ptr" in x.value:
            # the conditional expression / if that selects this text
            p_ = parent(x)
            while p_ is not None and not isinstance(p_, (ast.IfExp, ast.If, ast.FunctionDef)):
                p_ = parent(p_)
            if isinstance(p_, ast.IfExp):
                m_tests.append(p_.test)
            elif isinstance(p_, ast.If):
                m_tests.append(p_.test)
    for t in m_tests:
        subj = truth_subject(inline_locals(wcc, t))
        subj = truth_subject(subj)
        txt = unparse(subj)
        # parameters of wrap_class_constructors -> what the caller passes
        sub = {pn: "(" + unparse(av) + ")" for pn, av in b.items()}
        c1 = canon(subj, sub)
        c1 = c1.replace(f"({cls_param_wic}.", "(CLS.").replace(f"({cls_param_wic})", "(CLS)").replace(f"{cls_param_wic}.", "CLS.")
        c1 = _re.sub(r"^\((.*)\)$", r"\1", c1)
        forms.setdefault(".m constructor (base_ptr captured / forwarded)", set()).add(c1)
    # --- C++ side: guards of every `new SharedBase` emission
    mapdef = next((st for st in walk_no_nested(gc) if isinstance(st, ast.Assign) and isinstance(st.targets[0], ast.Name)
                   and "wrapper_map" in unparse(st.value)), None)
    mapvar = mapdef.targets[0].id if mapdef is not None else None
    mapexpr = unparse(mapdef.value) if mapdef is not None else None
    n_cpp = 0
    for x in ast.walk(gc):
        if isinstance(x, ast.Constant) and isinstance(x.value, str) and "new SharedBase" in x.value:
            st = stmt_of(x)
            gs = [ast.parse(t, mode="eval").body for t, pol in guards_of(st, gc, include_exits=False) if pol]
            inner = [g for g in gs if "parent" in unparse(inline_locals(gc, g))]
            role = next((unparse(g) for g in gs if "'constructor'" in unparse(g) or "'collectorInsertAndMakeBase'" in unparse(g)), "?")
            label = "C++ constructor routine" if "'constructor'" in role else ("C++ collectorInsertAndMakeBase routine" if "collectorInsert" in role else f"C++ routine under {role}")
            n_cpp += 1
            if not inner:
                forms.setdefault(label, set()).add("<unconditional>")
            for g in inner:
                subj = truth_subject(truth_subject(inline_locals(gc, g)))
                c2 = unparse(subj).replace(" ", "")
                for base_ in ([mapvar, mapexpr] if mapvar else []):
                    c2 = c2.replace(f"{base_}[1]".replace(" ", ""), "CLS")
                forms.setdefault(label, set()).add(c2)
    flat = {k: sorted(v) for k, v in forms.items()}
    allf = {f for v in forms.values() for f in v}
    rep.add(rid, "base handle:the .m constructor and both C++ routines decide 'has a parent' by the same test of the class",
            len(allf) == 1 and len(forms) >= 3 and n_cpp >= 2,
            f"tests found: {flat}: where they disagree for some class (a parent on the ignore list, say) a SharedBase handle is "
            f"allocated that no MATLAB object receives, or the .m constructor waits for an output that is not produced",
            f"{ci.mod.rel}:{gc.lineno}")


def rule_overload_data_from_overload(ctx, rep: Report, rid="M9"):
    """Inside the loops that emit one MATLAB branch per overload (and allocate that overload's gateway id), everything that
    depends on the signature - output list, return description, argument list, type tests - is computed from the overload
    whose id is allocated in the same iteration.  Taking any of it from the first overload of the group (hoisted out of the
    loop) gives later overloads the wrong number of outputs or the wrong tests while the C++ routine behind their id still
    follows their own signature."""
    ci, prog = mw(ctx)
    SIG_HELPERS = {"_format_varargout": 0, "_format_return_type": 0, "_wrap_args": 0, "_wrap_method_check_statement": 0,
                   "_wrap_variable_arguments": 0, "_wrap_list_variable_arguments": 0}
    n = 0
    for name in ("wrap_class_methods", "wrap_static_methods", "wrap_global_function"):
        fn = prog.method("MatlabWrapper", name)
        # loops whose variable is the payload of an id allocation made inside them
        loops = []
        for l in ast.walk(fn):
            if not (isinstance(l, ast.For) and isinstance(l.target, ast.Name)):
                continue
            v = l.target.id
            allocs = [c for c in ast.walk(l) if isinstance(c, ast.Call) and unparse(c.func) == "self._update_wrapper_id" and c.args
                      and isinstance(c.args[0], ast.Tuple) and len(c.args[0].elts) == 4 and isinstance(c.args[0].elts[3], ast.Name)
                      and c.args[0].elts[3].id == v]
            if allocs:
                loops.append((l, v))
        for l, v in loops:
            outer_loop = enclosing(l, ast.For)
            scope = outer_loop if outer_loop is not None else fn
            for c in ast.walk(scope):
                if isinstance(c, ast.Call) and isinstance(c.func, ast.Attribute) and unparse(c.func.value) == "self" and c.func.attr in SIG_HELPERS and c.args:
                    a0 = c.args[SIG_HELPERS[c.func.attr]]
                    roots = {x.id for x in ast.walk(a0) if isinstance(x, ast.Name)}
                    if isinstance(a0, ast.Name):
                        # a local computed from ...: follow one step
                        vs = [st.value for st in ast.walk(scope) if isinstance(st, ast.Assign) and len(st.targets) == 1
                              and isinstance(st.targets[0], ast.Name) and st.targets[0].id == a0.id]
                        roots = {x.id for v_ in vs for x in ast.walk(v_) if isinstance(x, ast.Name)} or roots
                    n += 1
                    inside = any(x is c for x in ast.walk(l))
                    ok = roots == {v} and inside
                    rep.add(rid, f"{name}:{c.func.attr}({unparse(a0)[:30].replace(v, '<overload>')}):taken from the overload whose id is allocated", ok,
                            f"`{unparse(c)[:70]}` is computed from {sorted(roots)} {'inside' if inside else 'outside'} the loop over the overloads "
                            f"(loop variable `{v}`): an overload with another return shape / argument list gets the first one's text",
                            f"{ci.mod.rel}:{c.lineno}")
    if n < 6:
        raise AnalysisError(f"{rep.prop}/{rid}: only {n} signature-dependent helper calls found in the per-overload loops (6 expected)")


def rule_one_scope_for_class_names(ctx, rep: Report, rid="T9"):
    """The flattened MATLAB-side name of a class - `<scope><Name>` in `collector_<..>`, `Collector_<..>`, `ptr_<..>` - is
    written at a dozen places (preamble, routines, classdef property, constructor, delete).  All of them must take the
    scope from the same place.  Two derivations exist in the code: the namespace the class is *wrapped in* (the
    `namespace_name` string handed down by wrap_namespace, also stored in the routine table) and the namespace the
    class's *declaration* hangs in (`<class>.parent`, used by _format_class_name).  They differ for a typedef'd
    instantiation whose template lives in another namespace; a site of the second kind then spells another name than
    the sites of the first kind and the MEX source / classdef refer to an undeclared collector or property."""
    from .emit import Folder
    ci, prog = mw(ctx)
    helper = prog.find_method(ci, "_format_class_name")
    reads_parent = helper is not None and any(isinstance(a, ast.Attribute) and a.attr == "parent" for a in ast.walk(helper[1]))
    sites: List[Tuple[str, int, str, str]] = []
    name_sites: List[Tuple[str, int, str, bool]] = []
    for c in prog.mro(ci):
        for mname, fn in sorted(c.methods.items()):
            fo = Folder(prog, c.mod, fn, c)
            for call in [x for x in walk_no_nested(fn) if isinstance(x, ast.Call) and isinstance(x.func, ast.Attribute) and x.func.attr == "format"]:
                try:
                    t = fo.fold(call)
                except Exception:
                    t = None
                if t is None:
                    continue
                parts = t.parts
                for i, p_ in enumerate(parts):
                    if isinstance(p_, str) or i == 0:
                        continue
                    if i + 1 < len(parts) and not isinstance(parts[i + 1], str):
                        continue          # not the last slot of its run: the class component is the last one
                    j = i
                    while j > 0 and not isinstance(parts[j - 1], str):
                        j -= 1
                    if j == 0:
                        continue
                    before = parts[j - 1]
                    if not (before.endswith("ptr_") or before.endswith("ollector_")):
                        continue
                    e = inline_locals(fn, p_.expr)
                    txt = unparse(e)
                    if isinstance(e, ast.Name):
                        # bound by unpacking the result of a naming helper: `a, b = self.get_class_name(cls)`
                        for st in walk_no_nested(fn):
                            if isinstance(st, ast.Assign) and isinstance(st.targets[0], (ast.Tuple, ast.List)) \
                                    and any(isinstance(x, ast.Name) and x.id == e.id for x in st.targets[0].elts) \
                                    and isinstance(st.value, ast.Call) and isinstance(st.value.func, ast.Attribute) and unparse(st.value.func.value) == "self":
                                h = prog.find_method(ci, st.value.func.attr)
                                if h is not None and "_format_class_name(" in unparse(h[1]):
                                    txt = f"self.{st.value.func.attr}(...) -> _format_class_name(...)"
                    if "_format_class_name(" in txt or "get_class_name(" in txt:
                        fam = "declaration scope" if reads_parent else "helper"
                    elif isinstance(e, ast.BinOp) and isinstance(e.op, ast.Add) and txt.endswith(".name"):
                        fam = "wrapping scope"
                    elif isinstance(e, ast.Name) and e.id in func_params(fn):
                        fam = "parameter"
                    else:
                        fam = "other"
                    sites.append((mname, call.lineno, fam, txt[:60]))
                    # the class component is the instantiated class's own name (for a parameter: at every call of this method)
                    exprs = [(mname, call.lineno, txt)]
                    if fam == "parameter":
                        exprs = []
                        for c2 in prog.mro(ci):
                            for m2, f2 in sorted(c2.methods.items()):
                                for k2 in walk_no_nested(f2):
                                    if isinstance(k2, ast.Call) and isinstance(k2.func, ast.Attribute) and unparse(k2.func.value) == "self" and k2.func.attr == mname:
                                        try:
                                            b2 = bind_call(fn, k2, drop_self=True)
                                        except AnalysisError:
                                            continue
                                        if e.id in b2:
                                            exprs.append((m2, k2.lineno, unparse(inline_locals(f2, b2[e.id]))))
                    for m3, ln3, t3 in exprs:
                        if ".name" in t3:
                            name_sites.append((m3, ln3, t3, ".original.name" not in t3))
    seen_ns = set()
    for m3, ln3, t3, ok3 in name_sites:
        key3 = f"{m3}:{t3.replace(' ', '')[-40:]}"
        if key3 in seen_ns:
            continue
        seen_ns.add(key3)
        ordinal3 = sum(1 for x in seen_ns if x.startswith(m3 + ":"))
        rep.add(rid, f"class names:{m3}:#{ordinal3}:the class component is the instantiated class's own name", ok3,
                f"`{t3[:70]}` (line {ln3}): `.original.name` is the template's name (`MyFactor`), the collectors and the classdef are named after the "
                f"instantiation (`MyFactorPosePoint2`)", f"{ci.mod.rel}:{ln3}", nontrivial=not ok3)
    fams = {}
    for mname, ln, fam, txt in sites:
        fams.setdefault(fam, []).append(f"{mname}@{ln}")
    if len(sites) < 6:
        raise AnalysisError(f"{rep.prop}/{rid}: only {len(sites)} collector / pointer-property name sites found")
    decl = fams.get("declaration scope", [])
    wrapping = fams.get("wrapping scope", [])
    by_method = sorted({s.split("@")[0] for s in decl})
    for m_ in by_method or ["-"]:
        rep.add(rid, f"class names:{m_}:collector / pointer-property names take the scope the class is wrapped in",
                not (decl and wrapping) or m_ == "-",
                f"{m_} spells the name through _format_class_name, which reads the scope from `<class>.parent` (the declaration's namespace), while "
                f"{len(wrapping)} other site(s) ({', '.join(wrapping[:3])} ...) use the namespace the class is wrapped in: for "
                f"`namespace a {{ template<T> class Box {{}}; }} namespace b {{ typedef a::Box<a::P> BoxP; }}` one side writes aBoxP, the other bBoxP",
                f"{ci.mod.rel}:{next((int(s.split('@')[1]) for s in decl if s.startswith(m_ + '@')), 0)}")


def rule_callee_spelling(ctx, rep: Report, rid="M10"):
    """The C++ expression a routine calls is the *declared* entity: its original name, with the explicit template
    arguments of the instantiation (`to_cpp()` of the instantiated callable).  Per kind of callable handled by
    wrap_collector_function_return, the last component of the callee's spelling is classified: `x.to_cpp()` is the declared
    spelling; `x.original.name` drops the template arguments (only right for a kind that cannot be a template);
    `x.name` is the *instantiated* name for every kind whose instantiation renames it (instantiate_name) and names no
    C++ entity then."""
    ci, prog = mw(ctx)
    fn0 = prog.method("MatlabWrapper", "wrap_collector_function_return")

    def kind_tests(f_, p_):
        return [i for i in walk_no_nested(f_) if isinstance(i, ast.If) and isinstance(i.test, ast.Call) and unparse(i.test.func) == "isinstance"
                and unparse(i.test.args[0]) == p_]
    fn, mparam = _holder(prog, ci, fn0, func_params(fn0)[1], lambda f_, p_: len(kind_tests(f_, p_)) >= 3)
    if fn is None:
        raise AnalysisError(f"wrap_collector_function_return: dispatch on the kind of `{func_params(fn0)[1]}` not found")
    chain = kind_tests(fn, mparam)
    all_classes = [c for mi in prog.modules.values() for c in mi.classes.values()]

    def renamed_by_instantiation(k) -> List[str]:
        out = []
        for c in all_classes:
            if c is k or prog.is_subclass(c, k):
                init = c.methods.get("__init__")
                if init is not None and any(isinstance(st, ast.Assign) and unparse(st.targets[0]) == "self.name" and "instantiate_name(" in unparse(st.value)
                                            for st in ast.walk(init)):
                    out.append(c.qual)
        return out

    def can_be_template(k) -> bool:
        for c in all_classes:
            if c is k or prog.is_subclass(c, k):
                init = c.methods.get("__init__")
                if init is not None and "instantiations" in func_params(init):
                    return True
        return False
    n = 0
    for i in chain:
        kexpr = i.test.args[1]
        k = prog.resolve_class(kexpr, ci.mod)
        kname = unparse(kexpr).split(".")[-1]
        pieces = []
        for st in i.body:
            if isinstance(st, (ast.Assign, ast.AugAssign)) and unparse(st.targets[0] if isinstance(st, ast.Assign) else st.target) not in (mparam,) \
                    and "name" in unparse(st.targets[0] if isinstance(st, ast.Assign) else st.target):
                pieces.append(st.value)
            elif isinstance(st, ast.Return) and st.value is not None:
                # a helper that answers per kind: `return '<receiver>', <spelling>`
                pieces += [v for v in (st.value.elts if isinstance(st.value, ast.Tuple) else [st.value]) if not isinstance(v, ast.Constant)]
        if not pieces or k is None:
            continue
        last = pieces[-1]
        while isinstance(last, ast.BinOp) and isinstance(last.op, ast.Add):
            last = last.right            # the last component of a concatenated spelling
        txt = unparse(last)
        n += 1
        if txt == f"{mparam}.to_cpp()":
            ok, why = True, "declared spelling (original name + explicit template arguments)"
        elif txt == f"{mparam}.original.name":
            ok = not can_be_template(k)
            why = (f"`{txt}`: the explicit template arguments of a templated {kname} are dropped; C++ must deduce them, which fails for a parameter "
                   f"that does not occur in the argument list (`template<T={{int}}> static T make();` -> `Class::make()`)")
        elif txt == f"{mparam}.name":
            rn = renamed_by_instantiation(k)
            ok = not rn
            why = (f"`{txt}`: for {rn} this is the instantiated name (`TemplatedFunctionRot3`), not the declared function: the routine calls "
                   f"`TemplatedFunctionRot3(t)` where C++ declares `TemplatedFunction<gtsam::Rot3>(t)`")
        elif ".name" not in txt and "to_cpp" not in txt:
            ok, why = False, (f"the spelling ends with `{txt}`: no component names the callable itself, so the routine calls the enclosing scope "
                              f"(`gtsam::(args)`) instead of the declared entity")
        else:
            ok, why = True, f"`{txt}` (not classified)"
        rep.add(rid, f"callee spelling:{kname}" + ("" if ok or ".name" in txt else ":names the callable"), ok, why, f"{ci.mod.rel}:{last.lineno}", nontrivial=not ok or txt.endswith("to_cpp()"))
    if n < 3:
        raise AnalysisError(f"{rep.prop}/{rid}: only {n} kinds of callable classified")


# ------------------------------------------------------------------------------------------ per-element path analysis
class _Subst(ast.NodeTransformer):
    def __init__(self, env):
        self.env = env

    def visit_Name(self, n):
        if isinstance(n.ctx, ast.Load) and n.id in self.env:
            return ast.parse(unparse(self.env[n.id]), mode="eval").body
        return n


def _subst(e: ast.AST, env: Dict[str, ast.AST]) -> ast.AST:
    c = ast.parse(unparse(e), mode="eval").body
    return ast.fix_missing_locations(_Subst(env).visit(c))


def _text_atoms(e: ast.AST) -> List[Tuple[str, str]]:
    """A concatenation as a list of ('const', text) / ('expr', source) atoms, adjacent constants merged."""
    out: List[Tuple[str, str]] = []

    def add(x):
        if isinstance(x, ast.BinOp) and isinstance(x.op, ast.Add):
            add(x.left)
            add(x.right)
        elif isinstance(x, ast.Constant) and isinstance(x.value, str):
            if x.value:
                out.append(("const", x.value))
        elif isinstance(x, ast.JoinedStr):
            for v in x.values:
                add(v.value if isinstance(v, ast.FormattedValue) else v)
        else:
            out.append(("expr", unparse(x)))
    add(e)
    merged: List[Tuple[str, str]] = []
    for k, t in out:
        if k == "const" and merged and merged[-1][0] == "const":
            merged[-1] = ("const", merged[-1][1] + t)
        else:
            merged.append((k, t))
    return merged


def _element_paths(fn, loop: ast.For, accumulators: Set[str]):
    """All paths through one iteration of `loop`: (facts [(expr, polarity)], pieces [ast expr] appended to the
    accumulators, in order).  Locals assigned on the way are substituted into later expressions and tests."""
    from .rules_xml import _split_facts
    paths = []

    def run(stmts, nxt, env, facts, pieces):
        for i, st in enumerate(stmts):
            rest = [stmts[i + 1:]] + nxt
            if isinstance(st, ast.If):
                test = _subst(st.test, env)
                for pol, blk in ((True, st.body), (False, st.orelse)):
                    run(blk, rest, dict(env), facts + _split_facts(test, pol), list(pieces))
                return
            if isinstance(st, ast.Continue):
                paths.append((facts, pieces))
                return
            if isinstance(st, (ast.Break, ast.Return, ast.Raise)):
                return
            if isinstance(st, ast.Assign) and len(st.targets) == 1 and isinstance(st.targets[0], ast.Name) and isinstance(st.value, ast.IfExp):
                # `x = a if c else b` is the statement `if c: x = a / else: x = b`: one path per branch, with the facts of the test
                test = _subst(st.value.test, env)
                for pol, val in ((True, st.value.body), (False, st.value.orelse)):
                    e2 = dict(env)
                    e2[st.targets[0].id] = _subst(val, env)
                    run(stmts[i + 1:], nxt, e2, facts + _split_facts(test, pol), list(pieces))
                return
            if isinstance(st, ast.Assign) and len(st.targets) == 1 and isinstance(st.targets[0], ast.Name):
                env[st.targets[0].id] = _subst(st.value, env)
            # a piece that is itself a conditional (`acc.append(a if c else b)`) is two paths
            piece_node = None
            if isinstance(st, ast.AugAssign) and isinstance(st.target, ast.Name) and isinstance(st.op, ast.Add) and st.target.id in accumulators:
                piece_node = st.value
            elif isinstance(st, ast.Expr) and isinstance(st.value, ast.Call) and isinstance(st.value.func, ast.Attribute) \
                    and st.value.func.attr == "append" and isinstance(st.value.func.value, ast.Name) and st.value.func.value.id in accumulators and st.value.args:
                piece_node = st.value.args[0]
            if isinstance(piece_node, ast.IfExp):
                test = _subst(piece_node.test, env)
                for pol, val in ((True, piece_node.body), (False, piece_node.orelse)):
                    run(stmts[i + 1:], nxt, dict(env), facts + _split_facts(test, pol), list(pieces) + [_subst(val, env)])
                return
            if isinstance(st, ast.AugAssign) and isinstance(st.target, ast.Name) and isinstance(st.op, ast.Add):
                if st.target.id in accumulators:
                    pieces.append(_subst(st.value, env))
                elif st.target.id in env:
                    env[st.target.id] = ast.BinOp(left=env[st.target.id], op=ast.Add(), right=_subst(st.value, env))
            elif isinstance(st, ast.Expr) and isinstance(st.value, ast.Call) and isinstance(st.value.func, ast.Attribute) \
                    and st.value.func.attr == "append" and isinstance(st.value.func.value, ast.Name) and st.value.func.value.id in accumulators and st.value.args:
                pieces.append(_subst(st.value.args[0], env))
        if nxt:
            run(nxt[0], nxt[1:], env, facts, pieces)
        else:
            paths.append((facts, pieces))
    run(loop.body, [], {}, [], [])
    return paths


def _empty_markers(facts) -> Tuple[Set[str], bool]:
    """Which expressions the facts establish to be '' / falsy, and whether the facts contradict themselves on one of them."""
    empty: Set[str] = set()
    truthy: Set[str] = set()

    def mark_empty(x):
        if isinstance(x, ast.BoolOp) and isinstance(x.op, ast.Or):
            for v in x.values:
                mark_empty(v)
        else:
            empty.add(unparse(x))
    for e, pol in facts:
        if isinstance(e, ast.Compare) and len(e.ops) == 1 and isinstance(e.comparators[0], ast.Constant) and e.comparators[0].value == "":
            if (isinstance(e.ops[0], ast.Eq) and pol) or (isinstance(e.ops[0], ast.NotEq) and not pol):
                mark_empty(e.left)
            else:
                truthy.add(unparse(e.left))
        elif isinstance(e, (ast.Attribute, ast.Name)):
            (truthy.add if pol else empty.add)(unparse(e))
    return empty, bool(empty & truthy)


def rule_call_arguments_per_parameter(ctx, rep: Report, rid="M4"):
    """What the C++ call receives for each declared parameter, decided path by path through one iteration of the loop over
    the saved full parameter list: (1) for a parameter that is omitted at this arity and has a default, exactly the default's
    original text - nothing in front of it, nothing after; (2) for every other parameter its name, with a `*` in front exactly
    on paths where the facts establish that the type carries neither the shared (`*`) nor the raw (`@`) marker and that the
    by-value-object predicate holds."""
    ci, prog = mw(ctx)
    wu0 = prog.method("MatlabWrapper", "_wrapper_unwrap_arguments")

    def backup_loops(f_, p_):
        return [l for l in f_.body if isinstance(l, ast.For) and isinstance(l.target, ast.Name) and ".backup" in unparse(l.iter) and unparse(l.iter).startswith(p_)]
    wu, ap = _holder(prog, ci, wu0, func_params(wu0)[1], lambda f_, p_: len(backup_loops(f_, p_)) == 1)
    if wu is None:
        raise AnalysisError("_wrapper_unwrap_arguments: loop over the saved full parameter list (args.backup) not found")
    loops = backup_loops(wu, ap)
    loc = f"{ci.mod.rel}:{wu.lineno}"
    loop = loops[0]
    v = loop.target.id
    rets = [r.value for r in walk_no_nested(wu) if isinstance(r, ast.Return) and r.value is not None]
    acc = {x.id for r in rets for x in ast.walk(r) if isinstance(x, ast.Name)} & \
        {st.targets[0].id for st in wu.body if isinstance(st, ast.Assign) and len(st.targets) == 1 and isinstance(st.targets[0], ast.Name)}
    # the list of names given at this arity
    la = local_assignments(wu)

    def is_given_names(x) -> bool:
        e = x
        if isinstance(e, ast.Name):
            vs = [st.value for st in la.get(e.id, []) if isinstance(st, ast.Assign)]
            e = vs[0] if len(vs) == 1 else e
        t = unparse(e).replace(" ", "")
        return t == f"{ap}.names()" or (isinstance(e, ast.ListComp) and unparse(e.generators[0].iter).replace(" ", "") == f"{ap}.list()"
                                       and unparse(e.elt).endswith(".name"))
    paths = _element_paths(wu, loop, acc)
    bad_default, bad_name, bad_star, bad_bare = [], [], [], []
    n_omitted = n_explicit = n_star = 0
    for facts, pieces in paths:
        atoms: List[Tuple[str, str]] = []
        for p_ in pieces:
            atoms += _text_atoms(p_)
        atoms = [(k, t.replace(",", "")) if k == "const" else (k, t) for k, t in atoms]
        atoms = [(k, t) for k, t in atoms if not (k == "const" and t == "")]
        has_default = any(pol and unparse(e).replace(" ", "") == f"{v}.defaultisnotNone" for e, pol in facts) or \
            any((not pol) and unparse(e).replace(" ", "") == f"{v}.defaultisNone" for e, pol in facts)
        not_given = any(isinstance(e, ast.Compare) and len(e.ops) == 1 and unparse(e.left) == f"{v}.name" and is_given_names(e.comparators[0])
                        and ((pol and isinstance(e.ops[0], ast.NotIn)) or ((not pol) and isinstance(e.ops[0], ast.In))) for e, pol in facts)
        empty, contradictory = _empty_markers(facts)
        if contradictory:
            continue
        if has_default and not_given:
            n_omitted += 1
            if atoms != [("expr", f"{v}.default")]:
                bad_default.append(atoms)
            continue
        n_explicit += 1
        star = bool(atoms) and atoms[0] == ("const", "*")
        core = atoms[1:] if star else atoms
        if core != [("expr", f"{v}.name")]:
            bad_name.append(atoms)
        if not star:
            # the converse: a name goes out bare only where the facts exclude the by-value object - a marker is set, the type is a
            # reference or an enum, or the object test as a whole failed
            ftxt0 = [(unparse(e).replace(" ", ""), pol) for e, pol in facts]
            def about_markers(x) -> bool:
                return any(isinstance(y, ast.Attribute) and y.attr in ("is_shared_ptr", "is_ptr") and unparse(y.value) == f"{v}.ctype" for y in ast.walk(x))
            marker_set = False
            for e_, pol_ in facts:
                if isinstance(e_, ast.Compare) and len(e_.ops) == 1 and isinstance(e_.comparators[0], ast.Constant) and e_.comparators[0].value == "" \
                        and about_markers(e_.left):
                    # `<marker expression> == ''` false / `!= ''` true: one of the markers is set
                    marker_set = marker_set or (isinstance(e_.ops[0], ast.Eq) and not pol_) or (isinstance(e_.ops[0], ast.NotEq) and pol_)
                elif pol_ and isinstance(e_, (ast.Attribute, ast.BoolOp)) and about_markers(e_) and not any(isinstance(y, ast.Call) for y in ast.walk(e_)):
                    marker_set = True
            excluded = marker_set or any(pol and (t.startswith("self.is_ref(") or t.startswith("self.is_enum(")) for t, pol in ftxt0) or \
                any((not pol) and ("self.can_be_pointer(" in t or "self.is_shared_ptr(" in t or "self.is_ptr(" in t) for t, pol in ftxt0)
            if not excluded:
                bad_bare.append([t for t, pol in ftxt0][:5])
        if star:
            n_star += 1
            ftxt = [(unparse(e).replace(" ", ""), pol) for e, pol in facts]
            neither = f"{v}.ctype.is_shared_ptr" in empty and f"{v}.ctype.is_ptr" in empty
            pred = any(t.startswith("self.is_ref(") and not pol for t, pol in ftxt) and any(t.startswith("self.is_enum(") and not pol for t, pol in ftxt) \
                and any(("self.can_be_pointer(" in t or "self.is_shared_ptr(" in t) and pol for t, pol in ftxt)
            if not (neither and pred):
                bad_star.append((sorted(empty), [t for t, pol in ftxt][:6]))
    # what "omitted at this arity" is decided by: the parameter's whole name looked up in the collection of given names
    tests = [c for c in ast.walk(loop) if isinstance(c, ast.Compare) and len(c.ops) == 1 and isinstance(c.ops[0], (ast.In, ast.NotIn))
             and unparse(c.left) == f"{v}.name"]
    for c in tests:
        e = c.comparators[0]
        if isinstance(e, ast.Name):
            vs = [st.value for st in la.get(e.id, []) if isinstance(st, ast.Assign)]
            e = vs[0] if len(vs) == 1 else e
        joined = isinstance(e, ast.Call) and isinstance(e.func, ast.Attribute) and e.func.attr in ("join", "format") or isinstance(e, (ast.JoinedStr, ast.BinOp))
        rep.add(rid, "defaults:a parameter counts as given when its whole name is among the given names", is_given_names(c.comparators[0]),
                f"`{unparse(c)[:60]}` looks the name up in `{unparse(e)[:50]}`" + (": a string, so `in` is a substring test and a parameter whose name "
                "occurs inside another given name (`x1` in `x10`) is taken as given - the routine reads an argument that was never passed instead of "
                "using the default" if joined else ": not the list of the names of the parameters of this arity"), f"{ci.mod.rel}:{c.lineno}")
    rep.add(rid, "defaults:an omitted parameter contributes exactly its default's original text", n_omitted >= 1 and not bad_default,
            f"{n_omitted} path(s) for an omitted defaulted parameter; contributions other than `{v}.default`: {bad_default[:2]}: anything glued to the default "
            f"(a `*`, the name) changes the expression the declared entity is called with", loc)
    rep.add(rid, "defaults:every other parameter contributes its own name", n_explicit >= 1 and not bad_name,
            f"{n_explicit} path(s); contributions: {bad_name[:2]}", loc)
    rep.add("M7" if rep.prop == "C06" else rid, "call expression:`*` in front of a name exactly for a by-value object (no `*`/`@` marker, not a reference, not an enum)",
            n_star >= 1 and not bad_star and not bad_bare,
            f"{n_star} path(s) emit `*`; on {len(bad_star)} of them the facts do not establish that both markers are empty and that the object predicate holds: "
            f"{bad_star[:1]}; {len(bad_bare)} path(s) pass the bare name although nothing on the path excludes a by-value object {bad_bare[:1]} (the routine "
            f"holds such an argument as std::shared_ptr<T>, so `f(b)` instead of `f(*b)` does not compile or calls another overload)", loc)


def rule_copy_exactly_for_values(ctx, rep: Report, rid="H11"):
    """A returned object is copied into a new shared pointer (`std::make_shared<T>(...)`) exactly when the declared
    return type carries neither the shared (`*`) nor the raw (`@`) marker; a returned pointer of either kind is handed
    through.  On every path that writes `make_shared` the guards establish that *both* markers of the same type are
    empty, and on every sibling path that hands the object through, one of them is set.  (Testing `is_ref` or the
    shared marker twice makes a raw-pointer return a copy of the pointer value, or a by-value return an adopted
    address.)"""
    from .rules_xml import _split_facts
    ci, prog = mw(ctx)
    n = 0
    for mname, fn in sorted(ci.methods.items()):
        for c in walk_no_nested(fn):
            if not (isinstance(c, ast.Constant) and isinstance(c.value, str) and "make_shared<" in c.value):
                continue
            facts = []
            for t, pol in guards_of(c, fn, include_exits=False):
                facts += _split_facts(ast.parse(t, mode="eval").body, pol)
            empty, contradictory = _empty_markers(facts)
            subjects = {e[: -len(".is_shared_ptr")] for e in empty if e.endswith(".is_shared_ptr")} & \
                {e[: -len(".is_ptr")] for e in empty if e.endswith(".is_ptr")}
            n += 1
            rep.add(rid, f"copy:{mname}:#{sum(1 for o in rep.obs if o.rule == rid and o.construct.startswith('copy:' + mname + ':')) + 1}:"
                         f"make_shared only where the type has neither pointer marker", bool(subjects) and not contradictory,
                    f"markers established empty on the path: {sorted(empty)}: a return type with `*` or `@` must be handed through, a by-value one copied; "
                    f"this path copies without having excluded both", f"{ci.mod.rel}:{c.lineno}")
    if n < 2:
        raise AnalysisError(f"{rep.prop}/{rid}: only {n} make_shared sites found in the MATLAB generator")


def rule_base_class_spelling(ctx, rep: Report, rid="T13"):
    """A derived class names its base twice in the classdef file: in `classdef D < Base` and in the constructor's
    `obj = obj@Base(...)`.  Both must be the MATLAB name under which the base's own classdef is generated: the package
    path of *all* its namespaces, dots in between, template arguments folded into the name.  Each of the two spellings
    is followed back to the parent type and classified: a spelling that goes through a formatter consulting
    `ignore_namespace` loses the namespaces of a base called Matrix / Vector / Point2 / Point3; a spelling taken from
    str() / to_cpp() of the type keeps C++ template brackets (`gtsam.BetweenFactor<gtsam.Pose3>`), which is no MATLAB name."""
    ci, prog = mw(ctx)
    from .emit import Folder

    def reads_ignore_namespace(e, fn, depth=3) -> bool:
        for c in ast.walk(e):
            if isinstance(c, ast.Call) and isinstance(c.func, ast.Attribute) and unparse(c.func.value) == "self":
                h = prog.find_method(ci, c.func.attr)
                if h is None:
                    continue
                uses = [a for a in ast.walk(h[1]) if isinstance(a, ast.Attribute) and a.attr == "ignore_namespace"]
                # the formatter consults the list only while it writes namespaces: a call that asks for none, and adds
                # them itself from `.namespaces`, is not affected
                off = [k_ for k_, v_ in bound_args(h[1], c).items() if isinstance(v_, ast.Constant) and v_.value is False]
                if uses and off and all(any(t.replace(" ", "") in off for t, pol in guards_of(a, h[1], include_exits=False) if pol) for a in uses) \
                        and any(isinstance(x, ast.Attribute) and x.attr == "namespaces" for x in ast.walk(e)):
                    continue
                if uses:
                    return True
                if depth > 0:
                    for r in walk_no_nested(h[1]):
                        if isinstance(r, ast.Return) and r.value is not None and reads_ignore_namespace(r.value, h[1], depth - 1):
                            return True
        return False

    def cpp_spelling(e) -> bool:
        return any(isinstance(c, ast.Call) and ((isinstance(c.func, ast.Name) and c.func.id in ("str", "repr")) or
                                                (isinstance(c.func, ast.Attribute) and c.func.attr == "to_cpp")) for c in ast.walk(e)) \
            and not any(isinstance(c, ast.Call) and isinstance(c.func, ast.Attribute) and c.func.attr == "_format_type_name" for c in ast.walk(e))
    sites = []
    for mname, marker in (("wrap_instantiated_class", "classdef @ < @"), ("wrap_class_constructors", "obj = obj@")):
        fn = prog.method("MatlabWrapper", mname)
        fo = Folder(prog, ci.mod, fn, ci)
        found = None
        for c in walk_no_nested(fn):
            if isinstance(c, ast.JoinedStr) or (isinstance(c, ast.Call) and isinstance(c.func, ast.Attribute) and c.func.attr == "format"):
                t = fo.fold(c)
                if t is None:
                    continue
                lit = " ".join(t.literal("@").split())
                if mname == "wrap_instantiated_class" and lit.startswith("classdef @ < @"):
                    found = (t.slots()[1].expr, c)
                if mname == "wrap_class_constructors" and "obj = obj@@(" in lit.replace(" ", " "):
                    found = (t.slots()[0].expr, c)
        if found is None:
            raise AnalysisError(f"{mname}: the template naming the base class was not found")
        e, c = found
        full = inline_locals(fn, e)
        # a parameter re-bound before use (parent_name = self._format_type_name(parent_name, ...))
        if isinstance(full, ast.Name):
            vs = [st.value for st in walk_no_nested(fn) if isinstance(st, ast.Assign) and len(st.targets) == 1 and isinstance(st.targets[0], ast.Name)
                  and st.targets[0].id == full.id]
            if vs:
                full = vs[-1]
        sites.append((mname, fn, full, c))
    for mname, fn, e, c in sites:
        where = "classdef line" if mname == "wrap_instantiated_class" else "constructor's superclass call"
        rep.add(rid, f"base class:{where}:keeps every namespace of the base, whatever it is called",
                not reads_ignore_namespace(e, fn),
                f"`{unparse(e)[:70]}` goes through a formatter that drops the namespaces of types named Matrix / Vector / Point2 / Point3: "
                f"`class Marker : gtsam::Point3` names its base `Point3` here while the base's classdef is `gtsam.Point3`", f"{ci.mod.rel}:{c.lineno}")
        rep.add(rid, f"base class:{where}:template arguments folded into the MATLAB name", not cpp_spelling(e),
                f"`{unparse(e)[:70]}` is the C++ spelling with `::` replaced: a templated base keeps its angle brackets "
                f"(`gtsam.BetweenFactor<gtsam.Pose3>`), which is not the name of the generated class `gtsam.BetweenFactorPose3`", f"{ci.mod.rel}:{c.lineno}")


def rule_every_element_kind_is_wrapped_on_every_path(ctx, rep: Report, rid="T14"):
    """MatlabWrapper.wrap_namespace handles includes, nested namespaces, enums and classes in its content loop and the
    free functions of the namespace in a separate step after it.  Both happen for every namespace: no `return` leaves the
    function before the content loop and the free-function step have run (a shortcut for "nothing to create here" taken
    before the functions are wrapped removes their .m files and MEX routines without an error)."""
    ci, prog = mw(ctx)
    fn = prog.method("MatlabWrapper", "wrap_namespace")
    np_ = func_params(fn)[1]
    steps = []
    for i, st in enumerate(fn.body):
        if isinstance(st, ast.For) and unparse(st.iter) == f"{np_}.content":
            steps.append(("content loop", i, st))
        for c in ast.walk(st):
            if isinstance(c, ast.Call) and unparse(c.func) == "self.wrap_methods" and any(
                    (isinstance(a, ast.Constant) and a.value is True) for a in list(c.args) + [k.value for k in c.keywords]):
                if not any(s[0] == "free functions" for s in steps):
                    steps.append(("free functions", i, st))
    kinds = {s[0] for s in steps}
    if kinds != {"content loop", "free functions"}:
        raise AnalysisError(f"MatlabWrapper.wrap_namespace: steps found {sorted(kinds)}; the content loop and the free-function step are expected at the top level of the function")
    last = max(i for _, i, _ in steps)
    early = [r.lineno for i, st in enumerate(fn.body[:last]) for r in ast.walk(st) if isinstance(r, ast.Return)]
    guarded = [name for name, i, st in steps if isinstance(st, ast.If)]
    rep.add(rid, "wrap_namespace:the content loop and the free-function step run for every namespace", not early and not guarded,
            f"`return` at line {early} leaves the function before the free functions of the namespace are wrapped" if early else
            f"step(s) {guarded} run only under a condition", f"{ci.mod.rel}:{(early or [fn.lineno])[0]}")
    # the functions collected for that step are all the GlobalFunction elements of the namespace
    ff = steps[[s[0] for s in steps].index("free functions")][2]
    call = next(c for c in ast.walk(ff) if isinstance(c, ast.Call) and unparse(c.func) == "self.wrap_methods")
    arg = inline_locals(fn, call.args[0]) if call.args else None
    ok = isinstance(arg, ast.ListComp) and len(arg.generators) == 1 and unparse(arg.generators[0].iter) == f"{np_}.content" \
        and len(arg.generators[0].ifs) == 1 and "GlobalFunction" in unparse(arg.generators[0].ifs[0]) and unparse(arg.elt) == unparse(arg.generators[0].target)
    rep.add(rid, "wrap_namespace:every free function of the namespace is handed to the function wrapper", bool(ok),
            f"argument `{unparse(arg)[:80] if arg is not None else None}`", f"{ci.mod.rel}:{call.lineno}", nontrivial=False)


def rule_pair_element_by_position(ctx, rep: Report, rid="H13"):
    """wrap_collector_function_return_types builds `out[k] = ...pairResult.<element>...` for position k of a pair.  Every
    place where the emitted text reads the pair names the element *selected for this position* (the one conditional that
    maps position 0 to `first` and 1 to `second`): a literal `pairResult.first` in one of the branches hands the first
    element out in both positions."""
    ci, prog = mw(ctx)
    rt = prog.method("MatlabWrapper", "wrap_collector_function_return_types")
    p = func_params(rt)[2]
    loc = f"{ci.mod.rel}:{rt.lineno}"

    def selection(x) -> bool:
        if not (isinstance(x, ast.IfExp) and isinstance(x.body, ast.Constant) and isinstance(x.orelse, ast.Constant)):
            return False
        test = unparse(inline_locals(rt, x.test)).replace(" ", "")
        pair = (x.body.value, x.orelse.value)
        return (pair == ("first", "second") and test in (f"{p}==0", f"not{p}")) or \
            (pair == ("second", "first") and test in (f"{p}!=0", f"{p}==1", f"{p}"))
    fo_ = Folder(prog, ci.mod, rt, ci)
    reads, bad = 0, []
    seen = set()
    for e in ast.walk(rt):
        if not (isinstance(e, (ast.BinOp, ast.JoinedStr)) or (isinstance(e, ast.Call) and isinstance(e.func, ast.Attribute) and e.func.attr == "format")):
            continue
        par = parent(e)
        if isinstance(par, ast.BinOp) and isinstance(par.op, ast.Add):
            continue                # judged as part of the whole concatenation
        try:
            tt = fo_.fold(e)
        except AnalysisError:
            tt = None
        if tt is None:
            continue
        parts = tt.flat().parts
        for i_, q in enumerate(parts):
            if not isinstance(q, str) or "pairResult" not in q:
                continue
            # every occurrence inside this literal piece
            k = 0
            while True:
                k = q.find("pairResult", k)
                if k < 0:
                    break
                key = (e.lineno, i_, k)
                k += len("pairResult")
                if key in seen:
                    continue
                seen.add(key)
                reads += 1
                rest = q[k:]
                if rest == "." and i_ + 1 < len(parts) and not isinstance(parts[i_ + 1], str):
                    v = inline_locals(rt, parts[i_ + 1].val) if parts[i_ + 1].val is not None else None
                    if v is not None and selection(v):
                        continue
                    bad.append(f"line {e.lineno}: pairResult.<{unparse(parts[i_ + 1].val)[:30] if parts[i_ + 1].val is not None else '?'}>")
                else:
                    bad.append(f"line {e.lineno}: literal `pairResult{rest[:8]}`")
    rep.add(rid, "pair result:every read of the pair names the element selected for the position being written", reads > 0 and not bad,
            f"{reads} read(s) of pairResult; {bad}: the element written to out[k] has to be the k-th element of the pair in every branch "
            f"(pointer, value copied with make_shared, plain value) - a fixed `.first` gives MATLAB the first element (or an object built "
            f"from it) as the second output as well", loc)


def rule_enum_lookup_covers_scope(ctx, rep: Report, rid="M13"):
    """Whether a type is marshalled as an enum is decided by looking its name up among the enums of the class
    (`class_.enums`) and of the class's namespace (`class_.parent.content`).  The order of declarations in an interface
    file is free, so the lookup has to range over the *whole* list: no slice, no `break`, no early negative answer, no
    condition on the position of the class itself; the only filter is the kind test `isinstance(member, Enum)`."""
    prog = ctx.prog
    ci = prog.cls("CheckMixin")
    for pred, tail in (("is_class_enum", ".enums"), ("is_global_enum", ".parent.content")):
        fn = prog.method("CheckMixin", pred)
        cparam = func_params(fn)[2]
        loc = f"{ci.mod.rel}:{fn.lineno}"
        scopes = [fn]
        for c in ast.walk(fn):
            if isinstance(c, ast.Call) and isinstance(c.func, ast.Attribute) and unparse(c.func.value) == "self":
                h = prog.find_method(ci, c.func.attr)
                # (the sibling predicate, consulted by the other one, is judged on its own turn - against its own scope)
                if h is not None and h[1] not in scopes and c.func.attr not in ("is_class_enum", "is_global_enum"):
                    scopes.append(h[1])
        found, probs = 0, []
        for f_ in scopes:
            for it in ast.walk(f_):
                if not isinstance(it, (ast.For, ast.comprehension)):
                    continue
                src = inline_locals(f_, it.iter)
                txt = unparse(src).replace(" ", "")
                wraps = 0
                while isinstance(src, ast.Call) and isinstance(src.func, ast.Name) and src.func.id in ("list", "tuple", "iter", "reversed", "sorted", "set") and len(src.args) == 1:
                    src = src.args[0]
                    wraps += 1
                core = unparse(src).replace(" ", "")
                if not (core.endswith(".content") or core.endswith(".enums") or ".content" in txt or ".enums" in txt):
                    continue
                found += 1
                var = it.target.id if isinstance(it.target, ast.Name) else None
                whole = isinstance(src, ast.Attribute) and (core == f"{cparam}{tail}" or (f_ is not fn and core.endswith(tail.split(".")[-1])))
                if not whole:
                    probs.append(f"line {it.iter.lineno}: ranges over `{txt[:50]}`, not over the whole `{cparam}{tail}`")
                    continue

                def kind_test(t) -> bool:
                    return isinstance(t, ast.Call) and unparse(t.func) == "isinstance" and len(t.args) == 2 and unparse(t.args[0]) == var \
                        and unparse(t.args[1]).split(".")[-1] == "Enum"
                if isinstance(it, ast.comprehension):
                    for cond in it.ifs:
                        if not kind_test(cond):
                            probs.append(f"line {cond.lineno}: members filtered by `{unparse(cond)[:50]}`")
                else:
                    for x in ast.walk(it):
                        if isinstance(x, ast.Break):
                            g = enclosing(x, ast.If)
                            if g is not None and any(isinstance(c_, ast.Compare) and len(c_.ops) == 1 and isinstance(c_.ops[0], ast.Eq)
                                                     and f"{var}.name" in (unparse(c_.left), unparse(c_.comparators[0])) for c_ in ast.walk(g.test)) \
                                    and any(x is y for y in ast.walk(ast.Module(body=g.body, type_ignores=[]))):
                                continue          # leaving the loop once the name was found
                            probs.append(f"line {x.lineno}: the search stops (`break`) before every member was looked at")
                        elif isinstance(x, ast.Return) and not (isinstance(x.value, ast.Constant) and x.value.value is True):
                            probs.append(f"line {x.lineno}: a negative answer (`{unparse(x)[:30]}`) is given inside the search loop")
                        elif isinstance(x, ast.Continue):
                            g = enclosing(x, ast.If)
                            t = g.test if g is not None else None
                            if not (isinstance(t, ast.UnaryOp) and isinstance(t.op, ast.Not) and kind_test(t.operand)):
                                probs.append(f"line {x.lineno}: members skipped under `{unparse(t)[:40] if t is not None else '?'}`")
                        elif isinstance(x, ast.Compare) and any(isinstance(o, (ast.Is, ast.IsNot)) for o in x.ops) \
                                and cparam in {unparse(x.left)} | {unparse(c_) for c_ in x.comparators}:
                            probs.append(f"line {x.lineno}: the search depends on where the class itself stands (`{unparse(x)[:40]}`)")
        if not found:
            raise AnalysisError(f"{pred}: no lookup over {cparam}{tail} found")
        rep.add(rid, f"enum context:{pred}:the name is looked up among all enums of the scope, wherever they are declared", not probs,
                f"{probs}: an enum declared behind the class that uses it (legal in an interface file) is then not recognised and its values are "
                f"unwrapped / returned as class handles (`unwrap_shared_ptr< E >(in[k], \"ptr_E\")`, `wrap_shared_ptr(std::make_shared<E>(..))`) "
                f"instead of `unwrap_enum<E>` / `wrap_enum`", loc)


def rule_membership_tables_are_collections(ctx, rep: Report, rid="T15", classes=("CheckMixin", "FormatMixin", "MatlabWrapper")):
    """`name in self.<table>` is a test of membership only when the table is a collection.  A table spelt `('pickle')` -
    parentheses without the comma - is the *string* 'pickle', and `in` becomes a substring test: every method whose name
    occurs inside it (`k`, `le`, `pick`) is treated as listed.  Every class-level or constructor-assigned attribute that
    stands on the right of `in` / `not in` somewhere in the class has to be a tuple, list, set, dict (or a call building one)."""
    prog = ctx.prog
    n = 0
    seen = set()
    for cname in classes:
        ci = prog.cls(cname)
        used: Dict[str, ast.AST] = {}
        for k in prog.mro(prog.cls("MatlabWrapper")):
            for fn in k.methods.values():
                for c in ast.walk(fn):
                    if isinstance(c, ast.Compare) and len(c.ops) == 1 and isinstance(c.ops[0], (ast.In, ast.NotIn)):
                        r = c.comparators[0]
                        if isinstance(r, ast.Attribute) and isinstance(r.value, ast.Name) and r.value.id == "self":
                            used.setdefault(r.attr, c)
        for attr, use in sorted(used.items()):
            vals = []
            a = prog.find_attr(ci, attr) if attr in ci.attrs else None
            if a is not None:
                vals.append(a[1])
            init = ci.methods.get("__init__")
            if init is not None:
                vals += [st.value for st in walk_no_nested(init) if isinstance(st, ast.Assign) and len(st.targets) == 1
                         and unparse(st.targets[0]) == f"self.{attr}"]
            for v in vals:
                if (cname, attr, v.lineno) in seen:
                    continue
                seen.add((cname, attr, v.lineno))
                n += 1
                is_text = isinstance(v, (ast.JoinedStr,)) or (isinstance(v, ast.Constant) and isinstance(v.value, str))
                rep.add(rid, f"table:{cname}.{attr}:a collection, not a string", not is_text,
                        f"`{attr} = {unparse(v)[:40]}` is a string (parentheses without a trailing comma do not make a tuple), and "
                        f"`{unparse(use)[:50]}` (line {use.lineno}) is therefore a substring test: every name that occurs inside it counts as listed",
                        f"{ci.mod.rel}:{v.lineno}", nontrivial=is_text)
    if n < 5:
        raise AnalysisError(f"{rep.prop}/{rid}: only {n} membership tables found in the MATLAB generator")


def rule_ignore_list_kept_as_given(ctx, rep: Report, rid="X8", classes=("PybindWrapper", "MatlabWrapper")):
    """An entry of the ignore list is the fully qualified C++ name of a class, compared as it is with the name computed for
    each class.  The constructors keep the list as it was handed in (the parameter itself, or a plain copy of it): an
    entry that is rewritten on the way in - a scope prepended to names without `::`, a case change, a stripped prefix -
    no longer equals the key of the class it names (a global class cannot be ignored any more) and may equal the key of
    another class instead."""
    prog = ctx.prog
    n = 0
    for cname in classes:
        ci = prog.cls(cname)
        init = ci.methods.get("__init__")
        if init is None:
            raise AnalysisError(f"{cname}.__init__ not found")
        ps = func_params(init)
        stores = [st for st in walk_no_nested(init) if isinstance(st, ast.Assign) and any(unparse(t) == "self.ignore_classes" for t in st.targets)]
        if not stores:
            raise AnalysisError(f"{cname}.__init__: self.ignore_classes is not assigned")
        for st in stores:
            n += 1
            v = inline_locals(init, st.value)

            def as_given(e) -> bool:
                if isinstance(e, ast.Name) and e.id in ps:
                    return True
                if isinstance(e, ast.Call) and isinstance(e.func, ast.Name) and e.func.id in ("list", "tuple", "set", "frozenset") and len(e.args) == 1:
                    return as_given(e.args[0])
                if isinstance(e, ast.BoolOp) and isinstance(e.op, ast.Or):
                    return as_given(e.values[0]) and all(isinstance(x, (ast.List, ast.Tuple)) and not x.elts for x in e.values[1:])
                if isinstance(e, ast.IfExp):
                    return all(as_given(x) or (isinstance(x, (ast.List, ast.Tuple)) and not x.elts) for x in (e.body, e.orelse))
                if isinstance(e, (ast.ListComp, ast.GeneratorExp, ast.SetComp)) and len(e.generators) == 1 and not e.generators[0].ifs \
                        and isinstance(e.generators[0].target, ast.Name) and isinstance(e.elt, ast.Name) and e.elt.id == e.generators[0].target.id:
                    return as_given(e.generators[0].iter)          # [x for x in given]: a copy
                return False
            rep.add(rid, f"ignore list:{cname}.__init__:stored as it was given", as_given(v),
                    f"self.ignore_classes = {unparse(st.value)[:80]}: the entries are rewritten before they are compared with the classes' qualified names",
                    f"{ci.mod.rel}:{st.lineno}")
    if n < 2:
        raise AnalysisError(f"{rep.prop}/{rid}: {n} constructors store the ignore list")


def rule_every_function_group_gets_its_file(ctx, rep: Report, rid="T16"):
    """wrap_methods(global_funcs=True) is the only producer of free-function files: it groups the functions handed in by
    name and, for each group, appends `<name>.m`.  The append happens for *every* group: it is guarded by the
    `global_funcs` switch alone - no test on the group's name (the ignore lists are about class members and classes; a
    free function called like one of those entries is still a declared function), and the list that is grouped is the
    whole list handed in.  A membership test whose left side is the group itself (a list of overloads, never equal to a
    name) is dead and is reported as a note only."""
    ci, prog = mw(ctx)
    fn = prog.method("MatlabWrapper", "wrap_methods")
    params = func_params(fn)
    loc = f"{ci.mod.rel}:{fn.lineno}"
    # the function's file: `<somewhere>.append((folder, [(name + '.m', text)]))` - on self.content, or on a list handed in by the caller
    appends = [c for c in walk_no_nested(fn) if isinstance(c, ast.Call) and isinstance(c.func, ast.Attribute) and c.func.attr == "append" and c.args
               and any(isinstance(x, ast.Constant) and x.value == ".m" for x in ast.walk(c.args[0]))
               and (unparse(c.func.value) == "self.content" or (isinstance(c.func.value, ast.Name) and c.func.value.id in params))]
    if len(appends) != 1:
        raise AnalysisError(f"MatlabWrapper.wrap_methods: {len(appends)} appends of a function file, 1 expected")
    call = appends[0]
    loop = enclosing(call, ast.For)
    if loop is None or not isinstance(loop.target, ast.Name):
        raise AnalysisError("MatlabWrapper.wrap_methods: the function file is not appended inside a loop over the groups")
    g = loop.target.id
    is_seq = any(isinstance(x, ast.Subscript) and isinstance(x.value, ast.Name) and x.value.id == g for x in ast.walk(loop))
    bad, dead = [], []
    for t, pol in guards_of(call, fn, include_exits=True):
        e = ast.parse(t, mode="eval").body
        if isinstance(e, ast.Name) and e.id in params and pol:
            continue                                          # the global_funcs switch
        if isinstance(e, ast.Compare) and len(e.ops) == 1 and isinstance(e.ops[0], (ast.In, ast.NotIn)) and isinstance(e.left, ast.Name) \
                and e.left.id == g and is_seq and unparse(e.comparators[0]).startswith("self.ignore_"):
            dead.append(t)                                    # a list of overloads looked up in a tuple of names: never found
            continue
        bad.append(f"`{t}` is {pol}")
    rep.add(rid, "wrap_methods:the file of a free function is appended for every group of overloads", not bad,
            f"the append also depends on {bad}: a declared free function for which this fails gets no .m file, no id and no routine "
            f"(the ignore lists name class members and classes, not free functions)" + (f"; dead test(s) {dead}" if dead else ""),
            f"{ci.mod.rel}:{call.lineno}")
    # the groups are built from the whole list handed in
    it = inline_locals(fn, loop.iter)
    src = None
    if isinstance(it, ast.Call) and unparse(it.func) == "self._group_methods" and len(it.args) == 1:
        src = it.args[0]
    elif isinstance(loop.iter, ast.Name) and loop.iter.id in params:
        # `methods = self._group_methods(methods)`: the parameter is re-bound once before the loop
        defs = [st for st in fn.body if isinstance(st, ast.Assign) and len(st.targets) == 1 and isinstance(st.targets[0], ast.Name)
                and st.targets[0].id == loop.iter.id]
        if len(defs) == 1 and isinstance(defs[0].value, ast.Call) and unparse(defs[0].value.func) == "self._group_methods" and len(defs[0].value.args) == 1:
            src = defs[0].value.args[0]
    whole = isinstance(src, ast.Name) and src.id in params
    rep.add(rid, "wrap_methods:the groups are formed from the whole list handed in", whole,
            f"the loop runs over `{unparse(loop.iter)[:60]}`, grouped from `{unparse(src)[:60] if src is not None else '?'}`: a filtered list leaves declared functions without a file",
            loc, nontrivial=False)


def rule_serialize_pair_complete(ctx, rep: Report, rid="T17"):
    """A class that gets `string_serialize` / `saveobj` also gets `string_deserialize` / `loadobj` (and the two routines behind
    them): the static pair is emitted under the flag the serialize method set and the serialization option alone - no other
    condition (a class without static methods, an early return from the static block) stands in front of it."""
    from .rules_ids import inventory
    ci, prog = mw(ctx)
    sites = inventory(ctx)

    def role_name(s):
        return s.role.elts[2].value if isinstance(s.role, ast.Tuple) and len(s.role.elts) == 4 and isinstance(s.role.elts[2], ast.Constant) else None
    ser = [s for s in sites if role_name(s) == "string_serialize"]
    des = [s for s in sites if role_name(s) == "string_deserialize"]
    if len(ser) != 1 or len(des) != 1:
        raise AnalysisError(f"{rep.prop}/{rid}: {len(ser)} string_serialize and {len(des)} string_deserialize id allocation sites (1 each expected)")
    d = des[0]
    gs = guards_of(d.call, d.fn, include_exits=True)
    params = set(func_params(d.fn))
    extra = []
    for t, pol in gs:
        e = ast.parse(t, mode="eval").body
        atoms = e.values if isinstance(e, ast.BoolOp) and isinstance(e.op, ast.And) and pol else [e]
        for a in atoms:
            txt = unparse(a)
            if pol and ((isinstance(a, ast.Name) and a.id in params) or txt == "self.use_boost_serialization"):
                continue
            extra.append(f"`{t}` is {pol}")
            break
    rep.add(rid, "serialization:string_deserialize / loadobj emitted for every class that got string_serialize / saveobj", not extra,
            f"the static pair also depends on {extra}: a serializable class for which this fails can be saved but not loaded (no loadobj, no deserialize routine)",
            f"{ci.mod.rel}:{d.call.lineno}")


def rule_containers_registered_before_they_are_judged(ctx, rep: Report, rid="T18"):
    """wrap_namespace hands `self.content` lists that it goes on filling (the entries of an inner namespace are appended to the
    list after - or, through a callee, long after - the list was registered).  A registration that is made only if the list is
    non-empty *at that moment* drops everything appended later: a namespace that holds free functions only never gets its
    +package folder.  For every `self.content.append(<... L ...>)` guarded by a test on the local list L, nothing may be
    appended to L (directly, or by a method that receives L) after the registration."""
    ci, prog = mw(ctx)
    fn = prog.method("MatlabWrapper", "wrap_namespace")
    la = local_assignments(fn)
    lists = {n_ for n_, sts in la.items() if any(isinstance(st, ast.Assign) and isinstance(st.value, ast.List) for st in sts)}
    n = 0
    for c in walk_no_nested(fn):
        if not (isinstance(c, ast.Call) and unparse(c.func) == "self.content.append" and c.args):
            continue
        used = [x.id for x in ast.walk(c.args[0]) if isinstance(x, ast.Name) and x.id in lists]
        for L in used:
            n += 1
            tests = [t for t, pol in guards_of(c, fn, include_exits=True)
                     if any(isinstance(y, ast.Name) and y.id == L for y in ast.walk(ast.parse(t, mode="eval").body))]
            later = []
            for x in walk_no_nested(fn):
                if getattr(x, "lineno", 0) <= c.lineno or not isinstance(x, ast.Call):
                    continue
                if isinstance(x.func, ast.Attribute) and x.func.attr in ("append", "extend", "insert") and isinstance(x.func.value, ast.Name) and x.func.value.id == L:
                    later.append(f"line {x.lineno}: {L}.{x.func.attr}(...)")
                elif isinstance(x.func, ast.Attribute) and unparse(x.func.value) == "self" and any(
                        isinstance(y, ast.Name) and y.id == L for a in list(x.args) + [k.value for k in x.keywords] for y in ast.walk(a)):
                    later.append(f"line {x.lineno}: {L} handed to self.{x.func.attr}(...)")
            ok = not (tests and later)
            rep.add(rid, f"wrap_namespace:list `{L}` is registered before it is judged empty", ok,
                    f"the registration at line {c.lineno} is made only if {tests}, but the list is still being filled afterwards ({later[:2]}): what is appended "
                    f"to a list that was empty at that moment is never written (the files of a namespace that holds free functions only)",
                    f"{ci.mod.rel}:{c.lineno}", nontrivial=bool(tests))
    if n < 1:
        raise AnalysisError(f"{rep.prop}/{rid}: no list registered in self.content by wrap_namespace")


def _st_writes(st) -> Set[str]:
    out: Set[str] = set()

    def root(x):
        while isinstance(x, (ast.Attribute, ast.Subscript)):
            x = x.value
        return x.id if isinstance(x, ast.Name) else None
    if isinstance(st, ast.Assign):
        for t in st.targets:
            for y in (t.elts if isinstance(t, (ast.Tuple, ast.List)) else [t]):
                r = root(y.value if isinstance(y, ast.Starred) else y)
                if r:
                    out.add(r)
    elif isinstance(st, (ast.AugAssign, ast.AnnAssign)):
        r = root(st.target)
        if r:
            out.add(r)
    elif isinstance(st, ast.Expr) and isinstance(st.value, ast.Call) and isinstance(st.value.func, ast.Attribute) \
            and st.value.func.attr in ("append", "extend", "insert", "update", "setdefault", "add", "pop", "remove", "sort", "reverse", "clear"):
        r = root(st.value.func.value)
        if r:
            out.add(r)
    elif isinstance(st, ast.FunctionDef):
        out.add(st.name)
    return out


def slice_eval(fn, target: ast.expr, env: Dict[str, object], frozen=(), **kw):
    """The value of `target` (an expression inside fn) on the sample environment: only the statements of fn that the value depends
    on - the backward slice, with the headers of the loops and conditions around them - are run, up to the statement that holds
    the expression.  A big emitter can thus be asked for one slot of its template without interpreting the rest of it."""
    import copy as _copy
    holder = target
    while not isinstance(holder, ast.stmt):
        holder = parent(holder)
    inside = set()
    x = holder
    while x is not None and x is not fn:
        inside.add(id(x))
        x = parent(x)
    bound_inside = {t.id for c in ast.walk(target) if isinstance(c, ast.comprehension) for t in ast.walk(c.target) if isinstance(t, ast.Name)}
    needed = {n.id for n in ast.walk(target) if isinstance(n, ast.Name) and isinstance(n.ctx, ast.Load)} - bound_inside
    before = [st for st in walk_no_nested(fn) if isinstance(st, ast.stmt) and (st.lineno, st.col_offset) < (holder.lineno, holder.col_offset) and st is not holder]
    changed = True
    kept: Set[int] = set()
    while changed:
        changed = False
        for st in before:
            if id(st) in kept:
                continue
            w = _st_writes(st)
            if isinstance(st, (ast.For, ast.comprehension)):
                w |= {t.id for t in ast.walk(st.target) if isinstance(t, ast.Name)}
            w = w - set(frozen)              # names the caller supplies as samples: the statements that bind them are not run
            # a jump decides which of the kept statements run: `continue` / `break` inside a kept loop, `return` / `raise` anywhere before
            jump = False
            if isinstance(st, (ast.Continue, ast.Break)):
                lp = enclosing(st, (ast.For, ast.While))
                jump = lp is not None and (id(lp) in kept or id(lp) in inside)
            elif isinstance(st, (ast.Return, ast.Raise)):
                jump = True
            if jump or w & needed and not isinstance(st, (ast.If, ast.While, ast.With, ast.Try)) or (isinstance(st, ast.For) and w & needed):
                kept.add(id(st))
                changed = True
                reads = {n.id for n in ast.walk(st.iter if isinstance(st, ast.For) else st) if isinstance(n, ast.Name) and isinstance(n.ctx, ast.Load)}
                needed |= reads
                # the conditions and loops around a kept statement decide whether it runs
                p_ = parent(st)
                while p_ is not None and p_ is not fn:
                    if isinstance(p_, (ast.If, ast.While)):
                        needed |= {n.id for n in ast.walk(p_.test) if isinstance(n, ast.Name)}
                    elif isinstance(p_, ast.For):
                        needed |= {n.id for n in ast.walk(p_.iter) if isinstance(n, ast.Name)}
                        if id(p_) not in kept:
                            kept.add(id(p_))
                    p_ = parent(p_)

    def build(block):
        out = []
        for st in block:
            if st is holder:
                r = ast.Return(value=target)
                ast.copy_location(r, st)
                out.append(r)
                return out, True
            if id(st) in inside:
                new = _copy.copy(st)
                done = False
                for fld in ("body", "orelse", "finalbody"):
                    blk = getattr(st, fld, None)
                    if isinstance(blk, list) and any(id(b) in inside or b is holder for b in blk):
                        nb, done = build(blk)
                        setattr(new, fld, nb)
                    elif isinstance(blk, list):
                        setattr(new, fld, [])
                if isinstance(st, ast.Try):
                    new.handlers = []
                if isinstance(st, ast.With):
                    out.extend(new.body)          # the context manager itself is not part of the value
                else:
                    out.append(new)
                return out, done
            if isinstance(st, (ast.If, ast.For, ast.While, ast.With, ast.Try)):
                new = _copy.copy(st)
                any_kept = False
                for fld in ("body", "orelse", "finalbody"):
                    blk = getattr(st, fld, None)
                    if isinstance(blk, list):
                        nb, _ = build(blk)
                        setattr(new, fld, nb)
                        any_kept = any_kept or bool(nb)
                if isinstance(st, ast.Try):
                    new.handlers = []
                if any_kept:
                    if not new.body:
                        new.body = [ast.Pass()]
                    out.append(new)
            elif id(st) in kept:
                out.append(st)
        return out, False
    body, reached = build(fn.body)
    if not reached:
        raise _PathEval.Unknown("the expression was not reached while slicing")
    probe = _copy.copy(fn)
    probe.body = body
    probe.decorator_list = []
    return mini_exec(probe, env, **kw)


def sample_wrapper(ctx, **extra):
    """A sample MatlabWrapper object: the class-level tables of the mixins and the literal attributes its constructors set."""
    ci, prog = mw(ctx)
    me = SampleObj()
    for c in reversed(prog.mro(ci)):
        for a, v in c.attrs.items():
            try:
                me[a] = ast.literal_eval(v)
            except Exception:
                pass
        i = c.methods.get("__init__")
        for st in (ast.walk(i) if i is not None else ()):
            if isinstance(st, ast.Assign) and len(st.targets) == 1 and isinstance(st.targets[0], ast.Attribute) and unparse(st.targets[0].value) == "self":
                try:
                    me[st.targets[0].attr] = ast.literal_eval(st.value)
                except Exception:
                    pass
    me.update(extra)
    return me


def _sample_args(specs):
    def tn(name, *ns):
        return SampleObj(__kind__="Typename", name=name, namespaces=list(ns), instantiations=[])
    al = [SampleObj(__kind__="Argument", name=nm, default=None,
                    ctype=SampleObj(__kind__="Type", typename=tn(t, *ns), is_const="", is_ref="", is_ptr="", is_shared_ptr="", is_basic=False))
          for nm, t, ns in specs]
    return SampleObj(__kind__="ArgumentList", args_list=al, list=lambda: list(al), names=lambda: [a["name"] for a in al], __len__=lambda: len(al))


def _guard_builders_evaluable(ctx) -> bool:
    def mk():
        class _R:
            prop = "-"

            def __init__(self):
                self.obs = []
                self.units = {}

            def add(self, rid, construct, ok, detail="", loc="", nontrivial=True):
                self.obs.append(construct)
        r = _R()
        try:
            rule_guard_builders_by_evaluation(ctx, r, "M16")
        except AnalysisError:
            return False
        return r.units.get("guard_builder_runs", 0) >= 3
    return ctx._get("guard_builders_evaluable", mk)


def rule_guard_builders_by_evaluation(ctx, rep: Report, rid="M16"):
    """The two builders of the MATLAB-side overload guards - `_wrap_variable_arguments` (constructors, free functions) and
    `_wrap_method_check_statement` (methods, static methods) - give the same tests for the same parameter list: one
    `isa(varargin{k}, <class>)` per parameter at its own position, the size tests of Vector / Point2 / Point3 chosen by the
    declared type name, and the argument count of the whole list.  Decided by running both (the analyser's own interpreter)
    on sample parameter lists and comparing the emitted conditions index by index."""
    from .rules_ids import _all_methods
    ci, prog = mw(ctx)
    methods = _all_methods(prog, ci)
    me = sample_wrapper(ctx)
    va = prog.method("MatlabWrapper", "_wrap_variable_arguments")
    mc = prog.method("MatlabWrapper", "_wrap_method_check_statement")
    loc = f"{ci.mod.rel}:{va.lineno}"
    lists = [[("a", "double", []), ("v", "Vector", ["gtsam"]), ("p", "Point2", ["gtsam"]), ("q", "Point3", []), ("m", "Matrix", []), ("s", "string", ["std"]),
              ("k", "K", ["ns"]), ("n", "size_t", []), ("b", "bool", []), ("c", "char", []), ("u", "unsigned char", []), ("i", "int", []), ("t", "T", ["a", "b"])],
             [("x", "Point3", ["gtsam"])], [], [("k1", "K", []), ("k2", "Vector", [])]]
    shape_want = {"Vector": {"size(§,2)==1"}, "Point2": {"size(§,1)==2", "size(§,2)==1"}, "Point3": {"size(§,1)==3", "size(§,2)==1"}}
    probs, evaluated = [], 0
    for specs in lists:
        texts = {}
        try:
            pv, pm = func_params(va), func_params(mc)
            env_v = {pv[0]: me, pv[1]: _sample_args(specs)}
            for p_, d_ in zip(pv[len(pv) - len(va.args.defaults):], va.args.defaults):
                env_v.setdefault(p_, ast.literal_eval(d_))
            env_m = {pm[0]: me, pm[1]: _sample_args(specs)}
            for p_, d_ in zip(pm[len(pm) - len(mc.args.defaults):], mc.args.defaults):
                env_m.setdefault(p_, ast.literal_eval(d_))
            texts["ctor/function"] = mini_exec(va, env_v, budget=12000, methods=methods)
            texts["method"] = mini_exec(mc, env_m, budget=12000, methods=methods)
        except (_PathEval.Unknown, _Raised, TypeError, KeyError, ValueError):
            continue
        if not all(isinstance(t, str) for t in texts.values()):
            continue
        evaluated += 1
        per = {}
        for who, t in texts.items():
            conds: Dict[int, Set[str]] = {}
            for m_ in re.finditer(r"(isa|size)\(varargin\{(\d+)\}(,[^)]*)\)(==\d+)?", t.replace(" ", "")):
                conds.setdefault(int(m_.group(2)), set()).add(f"{m_.group(1)}(§{m_.group(3)}){m_.group(4) or ''}")
            per[who] = conds
        for who, t in texts.items():
            # the guard is one conjunction: an `||` outside parentheses splits it (&& binds tighter), and the argument count in front
            # no longer gates what follows the `||`
            depth_, top_ = 0, []
            for ch in t:
                if ch == "(":
                    depth_ += 1
                elif ch == ")":
                    depth_ -= 1
                elif depth_ == 0:
                    top_.append(ch)
            if "||" in "".join(top_) or re.search(r"(?<!\|)\|(?!\|)", "".join(top_)):
                probs.append(f"{who}: the guard of {[s_[1] for s_ in specs]} has an `||` at its top level: `{t.strip()[:90]}` - the count test and the tests in front "
                             f"of it no longer apply to the alternative behind it")
        n_ = len(specs)
        cnt = re.search(r"length\(varargin\)==(\d+)", texts["method"].replace(" ", ""))
        if cnt is None or int(cnt.group(1)) != n_:
            probs.append(f"a list of {n_} parameter(s): the method guard tests the count {cnt.group(1) if cnt else 'not at all'}")
        if per["ctor/function"] != per["method"]:
            k_ = next(k for k in sorted(set(per["ctor/function"]) | set(per["method"])) if per["ctor/function"].get(k) != per["method"].get(k))
            probs.append(f"parameter {k_} ({specs[k_ - 1][1] if 0 < k_ <= n_ else '?'}): constructors / functions test {sorted(per['ctor/function'].get(k_, []))}, "
                         f"methods test {sorted(per['method'].get(k_, []))}")
        for who, conds in per.items():
            if set(conds) - set(range(1, n_ + 1)):
                probs.append(f"{who}: tests on positions {sorted(set(conds) - set(range(1, n_ + 1)))} that the list of {n_} does not have")
            for k_, (nm, t, ns) in enumerate(specs, 1):
                got = conds.get(k_, set())
                isa = [c for c in got if c.startswith("isa(")]
                if len(isa) != 1 and t not in (me.get("not_check_type") or []):
                    probs.append(f"{who}: parameter {k_} ({t}) has {len(isa)} class test(s)")
                sizes = {c for c in got if c.startswith("size(")}
                if sizes != shape_want.get(t, set()):
                    probs.append(f"{who}: parameter {k_} ({t}) has the size tests {sorted(sizes)}, {sorted(shape_want.get(t, set()))} expected")
    rep.units["guard_builder_runs"] = evaluated
    if evaluated == 0:
        rep.add(rid, "guard builders evaluated on sample parameter lists", True, "not evaluable; M2 decides by structure", loc, nontrivial=False)
        return
    rep.add(rid, "guard builders:the same class and size tests for the same parameters, each at its own position", not probs,
            f"{probs[:3]}: the overload a call reaches then depends on whether the callable is a method or a constructor / function, or a value of the "
            f"wrong shape selects an overload and is read as that type", loc)
