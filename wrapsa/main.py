"""Driver: ./check <ID> [quick|thorough] [--repo DIR] [--replay FILE]

exit 0  all obligations discharged (or only known findings remain; each printed as KNOWN-FINDING)
exit 1  at least one finding not listed in known_findings.json (VIOLATION line per finding)
exit 2  ANALYSIS-ERROR: the analyser could not decide (never dressed as a violation)
"""
from __future__ import annotations

import importlib
import json
import os
import sys
import time
import traceback

from .core import (AnalysisError, DEFAULT_REPO, Report, Tree, VERIF, known_index, load_known,
                   write_evidence)
from .ctx import Ctx

PROPS = [f"C{i:02d}" for i in range(1, 20)]


def load_prop(pid: str):
    try:
        return importlib.import_module(f"wrapsa.props.{pid.lower()}")
    except ModuleNotFoundError as e:
        if e.name == f"wrapsa.props.{pid.lower()}":
            return None
        raise


def run_rules(mod, root: str, tier: str = "quick") -> "tuple[Report, Tree]":
    ctx = Ctx(root)
    rep = Report(mod.ID)
    mod.run(ctx, rep)
    if tier == "thorough" and hasattr(mod, "run_thorough"):
        mod.run_thorough(ctx, rep)
    return rep, ctx.tree


def main(argv=None) -> int:
    argv = list(sys.argv[1:] if argv is None else argv)
    if not argv:
        print(__doc__)
        return 2
    pid = argv.pop(0).upper()
    tier = os.environ.get("VERIF_TIER", "") or "quick"
    root = DEFAULT_REPO
    replay = None
    while argv:
        a = argv.pop(0)
        if a in ("quick", "thorough"):
            tier = a
        elif a == "--repo":
            root = argv.pop(0)
        elif a == "--replay":
            replay = argv.pop(0)
        else:
            print(f"unknown argument {a}")
            return 2
    if tier not in ("quick", "thorough"):
        tier = "quick"
    t0 = time.time()
    try:
        mod = load_prop(pid)
        if mod is None:
            print(f"ANALYSIS-ERROR property={pid} no checker is implemented for this property")
            return 2
        rep, tree = run_rules(mod, root, tier)
        extra = {}
        if tier == "thorough":
            from . import thorough
            extra = thorough.run(mod, root, rep)
    except AnalysisError as e:
        print(f"ANALYSIS-ERROR property={pid} {e}")
        return 2
    except Exception:
        traceback.print_exc()
        print(f"ANALYSIS-ERROR property={pid} analyser crashed (see traceback)")
        return 2

    known = load_known()
    kidx = known_index(known, pid)
    failing = rep.failing()
    # a rule that could not complete fails the run as analysis-broken - unless the rules that did complete found a violation
    # that is not a listed known finding (then that violation is the answer; the incomplete rule is reported as a note)
    if rep.errors and not [o for o in failing if o.key() not in kidx]:
        for e in rep.errors:
            print(f"ANALYSIS-ERROR property={pid} {e}")
        return 2
    for e in rep.errors:
        print(f"analysis-note (secondary, a violation was found by the completed rules): {e}")
    hits, viol = [], []
    for o in failing:
        if o.key() in kidx:
            hits.append(o)
        else:
            viol.append(o)

    if replay:
        with open(replay) as f:
            r = json.load(f)
        still = [o for o in failing if o.rule == r.get("rule") and o.construct == r.get("construct")]
        if still:
            o = still[0]
            print(f"replay: {o.rule} {o.construct} still fails at {o.loc}: {o.detail}")
            print(f"VIOLATION property={pid} replay={replay}")
            return 1
        print(f"replay: {r.get('rule')} {r.get('construct')} no longer fails on this tree")
        return 0

    for o in hits:
        e = kidx[o.key()]
        print(f"KNOWN-FINDING: property={pid} {o.rule} {o.construct} -- {e.get('what', o.detail)}")
    rdir = os.path.join(VERIF, "evidence", "replay")
    for i, o in enumerate(viol):
        os.makedirs(rdir, exist_ok=True)
        path = os.path.join(rdir, f"{pid}-{i}.json")
        with open(path, "w") as f:
            json.dump({"property": pid, "rule": o.rule, "construct": o.construct, "loc": o.loc,
                       "detail": o.detail, "repo": tree.root,
                       "replay_cmd": f"./check {pid} --replay {path}"}, f, indent=1)
        print(f"VIOLATION property={pid} replay={path}")
        print(f"  rule {o.rule} at {o.loc}: {o.construct}\n  {o.detail}")
    wall = time.time() - t0
    if (root == DEFAULT_REPO and not os.environ.get("WRAPSA_NO_EVIDENCE")) or os.environ.get("WRAPSA_WRITE_EVIDENCE"):
        write_evidence(pid, tier, rep, tree, wall, len(viol), mod.EXPLANATION, mod.ASSUMPTIONS,
                       extra=extra, known_hit=[o.key() for o in hits])
    n = len(rep.obs)
    ok = sum(1 for o in rep.obs if o.ok)
    latent = sum(1 for o in rep.obs if not o.ok and o.latent)
    print(f"{pid} {tier}: {n} obligations over {len(tree.consulted())} sources, {ok} discharged, "
          f"{len(hits)} known finding(s), {len(viol)} violation(s), {latent} latent note(s), "
          f"{wall:.2f}s")
    return 1 if viol else 0


if __name__ == "__main__":
    sys.exit(main())
