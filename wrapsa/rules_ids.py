"""Engine I: the MATLAB wrapper-id protocol (C05 I1-I6)."""
from __future__ import annotations

import ast
import re
from typing import Dict, List, Optional, Set, Tuple

from .core import AnalysisError, Report
from .emit import Folder, Slot, Tpl
from .rules_alias import reaching_defs
from .prog import (ClassInfo, Program, enclosing, func_params, guards_of, inline_locals, local_assignments, parent, value_def,
                   stmt_of, unparse, walk_no_nested)

MW = "gtwrap/matlab_wrapper/wrapper.py"
ALLOC = "_update_wrapper_id"


def mw(ctx) -> Tuple[ClassInfo, Program]:
    return ctx.prog.cls("MatlabWrapper"), ctx.prog


# ------------------------------------------------------------------------------------------
def rule_single_writer(ctx, rep: Report, rid="I1"):
    """The counter and the dispatch map are written by the allocator only; the one other thing that may happen to
    them is a *joint* reset (counter := 0 and map := {} side by side, unconditionally) - in the constructor or in a
    start-of-run method.  Resetting one without the other leaves map entries of an earlier numbering under ids that
    the new numbering hands out again (reserved up-cast ids are recognised by their *absence* from the map)."""
    ci, prog = mw(ctx)
    INIT = {"wrapper_id": lambda v: isinstance(v, ast.Constant) and v.value == 0,
            "wrapper_map": lambda v: isinstance(v, ast.Dict) and not v.keys}
    writes = {a: [] for a in INIT}
    for c in prog.mro(ci):
        for mname, fn in c.methods.items():
            for n in walk_no_nested(fn):
                if isinstance(n, ast.Attribute) and n.attr in INIT and isinstance(n.value, ast.Name) and n.value.id == "self":
                    p = parent(n)
                    w = None
                    if isinstance(n.ctx, (ast.Store, ast.Del)):
                        w = "assign"
                    elif isinstance(p, ast.Subscript) and p.value is n and isinstance(p.ctx, (ast.Store, ast.Del)):
                        w = "item store"
                    elif isinstance(p, ast.Attribute) and p.attr in ("update", "pop", "clear", "setdefault", "popitem") \
                            and isinstance(parent(p), ast.Call):
                        w = "." + p.attr
                    if w:
                        writes[n.attr].append((c.qual, mname, w, n, fn))

    def reset_stmt(n):
        st = parent(n)
        return st if isinstance(st, (ast.Assign, ast.AnnAssign)) and st.value is not None and INIT[n.attr](st.value) else None

    resets = {}   # method -> {attr: stmt}
    for attr in INIT:
        bad = []
        for q, m, w, n, fn in writes[attr]:
            if m == ALLOC:
                continue
            st = reset_stmt(n) if w == "assign" else None
            if st is None or st not in fn.body:
                bad.append(f"{q}.{m} ({w}{'' if st is None else ', conditional'})")
            else:
                resets.setdefault(m, {})[attr] = st
        rep.add(rid, f"self.{attr}:written only by {ALLOC} and by unconditional resets to the empty value", not bad and bool(writes[attr]),
                f"other writers: {sorted(bad)}: any other writer breaks the one-id-per-call-site numbering",
                f"{ci.mod.rel}:{writes[attr][0][3].lineno if writes[attr] else 0}")
    def effective(m, depth=3):
        out = set(resets.get(m, {}))
        fn = prog.find_method(ci, m)
        if fn is None or depth <= 0:
            return out
        for st in fn[1].body:
            if isinstance(st, ast.Expr) and isinstance(st.value, ast.Call) and isinstance(st.value.func, ast.Attribute) \
                    and unparse(st.value.func.value) == "self" and st.value.func.attr != m:
                out |= effective(st.value.func.attr, depth - 1)
        return out

    for m in sorted(resets):
        eff = effective(m)
        rep.add(rid, f"reset:{m}:counter and dispatch map are reset together", eff == set(INIT),
                f"{m} resets only {sorted(eff)}: after it the counter hands out ids whose map entries still describe the "
                f"previous numbering (a reserved up-cast id, recognised by having *no* entry, finds a stale routine instead)",
                f"{ci.mod.rel}:{list(resets[m].values())[0].lineno}")
    init = prog.method("MatlabWrapper", "__init__")
    rep.add(rid, "self.wrapper_id/self.wrapper_map:start empty (constructor performs the joint reset)", effective("__init__") == set(INIT),
            f"joint resets found in {sorted(resets)}", f"{ci.mod.rel}:{init.lineno}")


def rule_allocator(ctx, rep: Report, rid="I2"):
    ci, prog = mw(ctx)
    fn = prog.method("MatlabWrapper", ALLOC)
    loc = f"{ci.mod.rel}:{fn.lineno}"
    incs = [s for s in fn.body if isinstance(s, ast.AugAssign) and unparse(s.target) == "self.wrapper_id"
            and isinstance(s.op, ast.Add) and isinstance(s.value, ast.Constant) and s.value.value == 1]
    all_writes = [n for n in walk_no_nested(fn) if isinstance(n, ast.Attribute) and n.attr == "wrapper_id"
                  and isinstance(n.ctx, ast.Store)]
    rep.add(rid, "allocator:increments the counter exactly once on every path", len(incs) == 1 and len(all_writes) == 1,
            f"{len(incs)} unconditional `self.wrapper_id += 1`, {len(all_writes)} writes in total", loc)
    rets = [s for s in walk_no_nested(fn) if isinstance(s, ast.Return)]
    ok_ret = len(rets) == 1 and rets[0] in fn.body and unparse(rets[0].value).replace(" ", "") == "self.wrapper_id-1" \
        and bool(incs) and fn.body.index(rets[0]) > fn.body.index(incs[0])
    rep.add(rid, "allocator:returns the pre-increment value", ok_ret,
            f"return {unparse(rets[0].value) if rets else None}", loc)
    p0 = func_params(fn)[1]
    regs = [n for n in walk_no_nested(fn) if isinstance(n, ast.Subscript) and isinstance(n.ctx, ast.Store)
            and unparse(n.value) == "self.wrapper_map"]
    ok_reg = False
    detail = ""
    if len(regs) == 1:
        st = stmt_of(regs[0])
        gs = guards_of(st, fn, include_exits=False)
        key = unparse(regs[0].slice).replace(" ", "")
        before = bool(incs) and st.lineno < incs[0].lineno
        ok_reg = gs == [(f"{p0} is not None", True)] and key == "self.wrapper_id" and before
        detail = f"key {key}, guards {gs}, before increment {before}"
        # the routine name carries id + id_diff
        val = st.value if isinstance(st, ast.Assign) else None
        name_ok = val is not None and "str(self.wrapper_id + id_diff)" in unparse(val)
        rep.add(rid, "allocator:routine name ends in the id shifted by id_diff", name_ok,
                unparse(val)[:120] if val is not None else "", loc)
        if isinstance(val, ast.Tuple):
            rep.add(rid, "allocator:map entry keeps namespace, owner, role and payload of the call site",
                    len(val.elts) == 5 and [unparse(e) for e in (val.elts[0], val.elts[1], val.elts[2], val.elts[4])] ==
                    [f"{p0}[0]", f"{p0}[1]", f"{p0}[2]", f"{p0}[3]"], unparse(val)[:120], loc)
    rep.add(rid, "allocator:registers map[pre-increment id] iff a role tuple was passed", ok_reg, detail, loc)


# ------------------------------------------------------------------------------------------
class Site:
    def __init__(self, fn, call):
        self.fn = fn
        self.call = call
        self.role: Optional[ast.AST] = None
        self.id_diff: Optional[ast.AST] = None
        self.function_name: Optional[ast.AST] = None
        self.offset: str = "?"
        self.tpl: Optional[Tpl] = None
        self.slot: Optional[Slot] = None
        self.problems: List[str] = []
        self.guards: List[Tuple[str, bool]] = []
        self.use_stmt = None


def _affine(e: ast.AST, base: ast.AST) -> Optional[str]:
    """Normal form of `e` as base + c  with c an int or a guarded int."""
    if e is base:
        return "+0"
    if isinstance(e, ast.BinOp) and isinstance(e.op, (ast.Add, ast.Sub)) and e.left is base:
        sign = "+" if isinstance(e.op, ast.Add) else "-"
        r = e.right
        if isinstance(r, ast.Constant) and isinstance(r.value, int):
            return f"{sign}{r.value}"
        if isinstance(r, ast.IfExp) and isinstance(r.body, ast.Constant) and isinstance(r.orelse, ast.Constant) \
                and isinstance(r.body.value, int) and isinstance(r.orelse.value, int):
            return f"{sign}({r.body.value} if {unparse(r.test)} else {r.orelse.value})"
    return None


def _add_offsets(a: str, b: str) -> str:
    """Sum of two offsets in the normal form of _affine."""
    if a == "+0":
        return b
    if b == "+0":
        return a
    ma, mb = re.fullmatch(r"([+-])(\d+)", a), re.fullmatch(r"([+-])(\d+)", b)
    if ma and mb:
        v = int(ma.group(1) + ma.group(2)) + int(mb.group(1) + mb.group(2))
        return f"+{v}" if v >= 0 else str(v)
    return "?"


def inventory(ctx) -> List[Site]:
    ci, prog = mw(ctx)
    sites: List[Site] = []
    for c in prog.mro(ci):
        for mname, fn in sorted(c.methods.items(), key=lambda kv: kv[1].lineno):
            if mname == ALLOC:
                continue
            fo = Folder(prog, c.mod, fn, c)
            calls = sorted((x for x in walk_no_nested(fn) if isinstance(x, ast.Call) and isinstance(x.func, ast.Attribute)
                            and x.func.attr == ALLOC), key=lambda x: (x.lineno, x.col_offset))
            for call in calls:
                s = Site(fn, call)
                alloc_fn = prog.method("MatlabWrapper", ALLOC)
                from .prog import bind_call
                b = bind_call(alloc_fn, call, drop_self=True)
                pnames = func_params(alloc_fn)[1:]
                s.role = b.get(pnames[0])
                if isinstance(s.role, ast.Name):
                    rv = value_def(fn, s.role.id)          # the role tuple may be built once and named
                    if isinstance(rv, ast.Tuple):
                        s.role = rv
                s.id_diff = b.get("id_diff")
                s.function_name = b.get("function_name")
                s.guards = guards_of(call, fn, include_exits=False)
                # where does the value go?
                val: ast.AST = call
                p = parent(val)
                if isinstance(p, ast.BinOp) and p.left is val:
                    val = p
                    p = parent(val)
                fmt_call, key = None, None
                if isinstance(p, ast.keyword):
                    fmt_call, key = parent(p), p.arg
                    s.offset = _affine(val, call) or "?"
                elif isinstance(p, ast.Assign) and len(p.targets) == 1 and isinstance(p.targets[0], ast.Name) and (val is call or _affine(val, call) is not None):
                    var = p.targets[0].id
                    off0 = _affine(val, call) or "+0"
                    # the uses this very assignment reaches (a name bound in each arm of an if/else has one use per arm)
                    uses = [u for u in walk_no_nested(fn) if isinstance(u, ast.Name) and u.id == var and isinstance(u.ctx, ast.Load)
                            and any(d is p for d in reaching_defs(fn, var, u)[0])]
                    if len(uses) != 1:
                        s.problems.append(f"the id held in `{var}` is used {len(uses)} times")
                    else:
                        u = uses[0]
                        v2: ast.AST = u
                        q = parent(u)
                        if isinstance(q, ast.BinOp) and q.left is u:
                            v2 = q
                            q = parent(q)
                        off = _add_offsets(off0, _affine(v2, u) or "?")
                        # the (shifted) id may pass through one more local before it is formatted: `id_v = base - 1; ...format(id=id_v)`
                        hops = 0
                        while isinstance(q, ast.Assign) and len(q.targets) == 1 and isinstance(q.targets[0], ast.Name) and q.value is v2 and hops < 3:
                            var2 = q.targets[0].id
                            uses2 = [x for x in walk_no_nested(fn) if isinstance(x, ast.Name) and x.id == var2 and isinstance(x.ctx, ast.Load)]
                            if len(uses2) != 1 or len(local_assignments(fn).get(var2, [])) != 1:
                                break
                            v2 = uses2[0]
                            u = uses2[0]
                            q = parent(v2)
                            hops += 1
                        if isinstance(q, ast.keyword):
                            fmt_call, key = parent(q), q.arg
                            s.offset = off
                        # the use must not be more guarded than the allocation
                        g_use = guards_of(u, fn, include_exits=True)
                        g_alloc = guards_of(call, fn, include_exits=True)
                        if g_use != g_alloc:
                            s.problems.append(f"allocation under {g_alloc} but its text under {g_use}: an id can be "
                                              f"allocated without a call site")
                else:
                    s.problems.append(f"the returned id is not embedded in a template ({type(p).__name__})")
                if fmt_call is not None:
                    if not (isinstance(fmt_call, ast.Call) and isinstance(fmt_call.func, ast.Attribute) and fmt_call.func.attr == "format"):
                        s.problems.append("id passed to something other than str.format")
                    else:
                        try:
                            t = fo.fold(fmt_call)
                        except AnalysisError as e:
                            t = None
                            s.problems.append(str(e))
                        s.tpl = t
                        if t is None:
                            s.problems.append("template not foldable")
                        else:
                            slots = [x for x in t.slots() if x.key == key]
                            if len(slots) != 1:
                                s.problems.append(f"placeholder {{{key}}} occurs {len(slots)} times in the template")
                            else:
                                s.slot = slots[0]
                                s.use_stmt = stmt_of(fmt_call)
                                prob = _text_reaches_output(fn, s.use_stmt)
                                if prob:
                                    s.problems.append(prob)
                sites.append(s)
    return sites


def _text_reaches_output(fn, st) -> str:
    """The statement that builds the text embedding an allocated id either appends it to the output directly, or binds it
    to a local that is appended in the same block with no `continue` / `break` / `return` (and no enclosing condition) in
    between.  Otherwise an id is allocated - its routine and case are generated - but no .m file ever calls it."""
    if isinstance(st, (ast.AugAssign, ast.Return)) or (isinstance(st, ast.Expr) and isinstance(st.value, ast.Call)
                                                       and isinstance(st.value.func, ast.Attribute) and st.value.func.attr in ("append", "extend")):
        return ""
    if not (isinstance(st, ast.Assign) and len(st.targets) == 1 and isinstance(st.targets[0], ast.Name)):
        return ""
    var = st.targets[0].id
    blk = None
    p = parent(st)
    for fld in ("body", "orelse", "finalbody"):
        b = getattr(p, fld, None)
        if isinstance(b, list) and st in b:
            blk = b
    if blk is None:
        return ""
    after = blk[blk.index(st) + 1:]

    def consumes(x) -> bool:
        if isinstance(x, ast.AugAssign) and any(isinstance(n, ast.Name) and n.id == var for n in ast.walk(x.value)):
            return True
        if isinstance(x, ast.Expr) and isinstance(x.value, ast.Call) and isinstance(x.value.func, ast.Attribute) \
                and x.value.func.attr in ("append", "extend") and any(isinstance(n, ast.Name) and n.id == var for n in ast.walk(x.value)):
            return True
        if isinstance(x, ast.Return) and x.value is not None and any(isinstance(n, ast.Name) and n.id == var for n in ast.walk(x.value)):
            return True
        if isinstance(x, ast.Assign):
            # folded into a bigger text (operand of +, argument of format/join/reduce, f-string field, list element):
            # that text's own fate is followed from its statement.  Merely *inspecting* the text (var.splitlines()[0]) is not.
            for n in ast.walk(x.value):
                if isinstance(n, ast.Name) and n.id == var:
                    q = parent(n)
                    if isinstance(q, (ast.BinOp, ast.FormattedValue, ast.List, ast.Tuple, ast.keyword)) or \
                            (isinstance(q, ast.Call) and n in q.args):
                        return True
        return False
    def always(stmts) -> Optional[bool]:
        """True: every path through stmts consumes the text; False: some path through a statement that mentions a consumer
        skips it; None: no consumer in here."""
        for y in stmts:
            if consumes(y):
                return True
            if isinstance(y, ast.If):
                a, b = always(y.body), always(y.orelse)
                if a is True and b is True:
                    return True
                if a is not None or b is not None:
                    return False
            elif isinstance(y, (ast.With, ast.Try)):
                a = always(y.body)
                if a is not None:
                    return a
            elif isinstance(y, (ast.For, ast.While)):
                if always(y.body) is not None:
                    return False              # a loop may run zero times
        return None
    for x in after:
        if consumes(x):
            return ""
        r = always([x])
        if r is True:
            return ""
        if r is False:
            return (f"the text holding the id is bound to `{var}` but appended on some paths only (line {x.lineno}: {unparse(x)[:50]!r}): "
                    f"when the condition fails the id has been allocated - its routine and its `case` are generated - but no .m file calls it")
        if any(isinstance(n, (ast.Continue, ast.Break, ast.Return, ast.Raise)) for n in ast.walk(x)):
            return (f"the text holding the id is bound to `{var}` and can be dropped before it is appended (line {x.lineno}: "
                    f"{unparse(x)[:50]!r}): the id is allocated and its routine generated, but no call site exists")
    return ""


def _spelling(t: Tpl) -> List[str]:
    """A template as a list of literal pieces and `<expr>` markers (what the slot is bound to, read through locals)."""
    out: List[str] = []
    for p in t.parts:
        if isinstance(p, str):
            out.append(p)
        elif p.sub is not None and p.sub.parts:
            out.extend(_spelling(p.sub))
        else:
            e = p.val
            out.append("<" + (unparse(e) if e is not None else "?" + p.key) + ">")
    merged: List[str] = []
    for p in out:
        if merged and not merged[-1].startswith("<") and not p.startswith("<"):
            merged[-1] += p
        else:
            merged.append(p)
    return merged


def _gateway_spelling(ctx) -> Optional[List[str]]:
    """How `_wrapper_name()` spells the name of the gateway (one spelling on every path, or None)."""
    ci, prog = mw(ctx)
    fn = prog.method("MatlabWrapper", "_wrapper_name")
    rets = [r for r in walk_no_nested(fn) if isinstance(r, ast.Return)]
    if len(rets) != 1 or rets[0].value is None:
        return None
    return _spelling(Folder(prog, ci.mod, fn, ci).fold(rets[0].value))


def _gateway_position(t: Tpl, slot: Slot, gateway: Optional[List[str]] = None) -> Tuple[bool, str]:
    """The slot is the first argument of `<wrapper>(`."""
    parts = t.parts
    i = parts.index(slot)
    if i == 0 or not isinstance(parts[i - 1], str) or not parts[i - 1].endswith("("):
        return False, "the id is not directly after an opening parenthesis"
    head = parts[i - 1][:-1]
    if head == "" and i >= 2 and isinstance(parts[i - 2], Slot) and parts[i - 2].key in ("wrapper", "wrapper_name"):
        e = parts[i - 2].val
        if e is not None and unparse(e) == "self._wrapper_name()":
            return True, "self._wrapper_name()("
        return False, f"callee slot bound to {unparse(e) if e is not None else None}"
    if head.endswith("_wrapper"):
        if gateway is None:
            return False, ("the gateway is spelled by hand here but `_wrapper_name()` has no single spelling to compare with: the .m file may call "
                           "a function that is not the compiled gateway")
        # the hand-written spelling must be the one `_wrapper_name()` produces, piece by piece from the right
        before = _spelling(Tpl(parts[:i - 1] + [head]))
        want = list(gateway)
        ok = len(before) >= len(want)
        for k in range(1, len(want) + 1):
            if not ok:
                break
            a, b = before[-k], want[-k]
            if k == len(want) and not b.startswith("<"):
                ok = a.endswith(b) and not (len(a) > len(b) and (a[-len(b) - 1].isalnum() or a[-len(b) - 1] == "_"))
            else:
                ok = a == b
        if ok:
            return True, "literal spelling equal to `_wrapper_name()`"
        return False, (f"the gateway is spelled `{''.join(before[-len(want):])[-40:]}` here but `_wrapper_name()` gives `{''.join(want)}`: "
                       f"this .m file calls a function that is not the compiled gateway")
    return False, f"text before the parenthesis is {head[-20:]!r}"


def rule_sites(ctx, rep: Report, rid="I3", min_sites=11):
    ci, prog = mw(ctx)
    sites = inventory(ctx)
    gateway = _gateway_spelling(ctx)
    rep.units["id_allocation_sites"] = len(sites)
    for k, s in enumerate(sites):
        role = unparse(s.role.elts[2])[:30] if isinstance(s.role, ast.Tuple) and len(s.role.elts) == 4 else ("none" if s.role is None else "?")
        key = f"site:{s.fn.name}#{_ordinal(sites, s)}:role={role}"
        loc = f"{ci.mod.rel}:{s.call.lineno}"
        ok = not s.problems and s.slot is not None
        pos_ok, how = (False, "")
        if ok:
            pos_ok, how = _gateway_position(s.tpl, s.slot, gateway)
        rep.add(rid, key + ":id embedded once, as first argument of the gateway call", ok and pos_ok,
                "; ".join(s.problems) or how, loc)
        # role tuples have 4 fields
        if s.role is not None:
            rep.add(rid, key + ":role tuple (namespace, owner, role/name, payload)",
                    isinstance(s.role, ast.Tuple) and len(s.role.elts) == 4, unparse(s.role)[:80], loc, nontrivial=False)
    if len(sites) < min_sites:
        raise AnalysisError(f"{rep.prop}/{rid}: {len(sites)} id allocation sites, {min_sites} expected")


def _ordinal(sites: List[Site], s: Site) -> int:
    return [x for x in sites if x.fn is s.fn].index(s)


def rule_offsets(ctx, rep: Report, rid="I4"):
    ci, prog = mw(ctx)
    sites = inventory(ctx)
    i = 0
    npairs = 0
    while i < len(sites):
        s = sites[i]
        loc = f"{ci.mod.rel}:{s.call.lineno}"
        key = f"site:{s.fn.name}#{_ordinal(sites, s)}"
        if s.role is None:
            # the unnamed id of the virtual pair
            nxt = sites[i + 1] if i + 1 < len(sites) and sites[i + 1].fn is s.fn else None
            g = [t for t, pol in s.guards if pol]
            ok = s.offset == "+1" and len(g) == 1 and nxt is not None and nxt.role is not None
            detail = f"unnamed id embedded as ret{s.offset} under {g}"
            split = False
            if ok:
                gd = g[0]
                want_diff = f"-1 if {gd} else 0"
                want_off = f"-(1 if {gd} else 0)"
                got_diff = unparse(nxt.id_diff) if nxt.id_diff is not None else "0"
                ok = got_diff == want_diff and nxt.offset == want_off and \
                    [t for t, pol in nxt.guards] == []
                if not ok and got_diff == "-1" and nxt.offset == "-1" and [(t, pol) for t, pol in nxt.guards] == [(gd, True)]:
                    # the same pair written branch by branch: under the flag the partner is registered and embedded one lower; the
                    # other branch allocates the same role unshifted (checked below as an ordinary site)
                    other = sites[i + 2] if i + 2 < len(sites) and sites[i + 2].fn is s.fn else None
                    ok = split = other is not None and other.role is not None and unparse(other.role) == unparse(nxt.role) and \
                        [(t, pol) for t, pol in other.guards] == [(gd, False)]
                detail += f"; partner id_diff={got_diff}, embedded as ret{nxt.offset}"
                # nothing allocates between the two
            rep.add(rid, key + ":virtual pair (hole embeds ret+1; partner named and embedded one lower under the same flag)",
                    ok, detail, loc)
            npairs += 1
            i += 2
            continue
        diff = unparse(s.id_diff) if s.id_diff is not None else "0"
        rep.add(rid, key + ":role-carrying id embedded unshifted", diff == "0" and s.offset == "+0",
                f"id_diff={diff}, embedded as ret{s.offset}: the .m call site and the routine name / case label "
                f"would be {s.offset} apart", loc)
        i += 1
    rep.units["virtual_pairs"] = npairs
    if npairs != 1:
        rep.add(rid, "exactly one unnamed-id site (the virtual up-cast)", False, f"{npairs} found", f"{ci.mod.rel}:0")


# ------------------------------------------------------------------------------------------
# I5: bounded abstract execution of the two replay loops
class _Sym:
    def __init__(self, s):
        self.s = s

    def __repr__(self):
        return self.s

    def __eq__(self, o):
        return isinstance(o, _Sym) and o.s == self.s

    def __hash__(self):
        return hash(self.s)


class _Entry:
    """An abstract wrapper_map entry."""
    def __init__(self, tag, owner_name=None, role=None):
        self.tag = tag
        self.owner_name = owner_name or f"owner({tag})"
        self.role = role          # the literal role tag a class-level routine carries in slot 2 (None: a user's member name)

    def get(self, i):
        if i == 1:
            return _Owner(self.tag, self.owner_name)
        if i == 3:
            return _Sym(f"name({self.tag})")
        if i == 2 and self.role is not None:
            return self.role
        return _Sym(f"{self.tag}[{i}]")


class _Owner:
    def __init__(self, tag, name=None):
        self.tag = tag
        self.name = name or f"owner({tag})"


class _Poison:
    def __init__(self, why):
        self.why = why


class _Continue(Exception):
    pass


class LoopExec:
    """Executes one replay loop body over a model of (wrapper_id, wrapper_map) with symbolic
    entries; records the events the body produces."""

    def __init__(self, fn, loop: ast.For, n: int, wmap: Dict[int, _Entry]):
        self.fn, self.loop, self.n, self.wmap = fn, loop, n, wmap
        self.events: List[tuple] = []
        self.env: Dict[str, object] = {}

    def run(self):
        # locals assigned before the loop: evaluate what can be evaluated, poison the rest
        for st in self.fn.body:
            if st is self.loop:
                break
            if isinstance(st, ast.Assign) and len(st.targets) == 1 and isinstance(st.targets[0], ast.Name):
                try:
                    self.env[st.targets[0].id] = self.ev(st.value)
                except AnalysisError as e:
                    self.env[st.targets[0].id] = _Poison(str(e))
        seq = self._iterable(self.loop.iter)
        for item in seq:
            self._bind(self.loop.target, item)
            try:
                self.block(self.loop.body)
            except _Continue:
                continue
        return self.events

    def _bind(self, target, value):
        if isinstance(target, ast.Name):
            self.env[target.id] = value
        elif isinstance(target, ast.Tuple) and isinstance(value, tuple) and len(target.elts) == len(value):
            for t, v in zip(target.elts, value):
                self._bind(t, v)
        else:
            raise AnalysisError("replay loop: loop target not modelled")

    def _iterable(self, e):
        it = unparse(e).replace(" ", "")
        if it == "range(self.wrapper_id)":
            return list(range(self.n))
        if it in ("sorted(self.wrapper_map.items())", "self.wrapper_map.items()"):
            return sorted(self.wmap.items())
        if it in ("sorted(self.wrapper_map)", "sorted(self.wrapper_map.keys())", "self.wrapper_map"):
            return sorted(self.wmap)
        return list(self._range(e))

    def _range(self, e):
        if isinstance(e, ast.Call) and unparse(e.func) == "range":
            args = [self.ev(a) for a in e.args]
            if all(isinstance(a, int) for a in args):
                return range(*args)
        raise AnalysisError(f"replay loop iterates {unparse(e)}: not a range over the id counter")

    def block(self, stmts):
        for st in stmts:
            self.stmt(st)

    def stmt(self, st):
        if isinstance(st, ast.Assign) and len(st.targets) == 1 and isinstance(st.targets[0], ast.Name):
            self.env[st.targets[0].id] = self.ev(st.value)
        elif isinstance(st, ast.AugAssign) and isinstance(st.target, ast.Name):
            v = self.ev(st.value)
            if v is not None and v != "":
                self.events.append(("emit", st.target.id, v))
        elif isinstance(st, ast.If):
            t = self.ev(st.test)
            self.block(st.body if t else st.orelse)
        elif isinstance(st, ast.Continue):
            raise _Continue()
        elif isinstance(st, ast.Expr):
            self.ev(st.value)
        elif isinstance(st, ast.Pass):
            pass
        else:
            raise AnalysisError(f"replay loop: statement {type(st).__name__} is not modelled")

    def ev(self, e):
        if isinstance(e, ast.Constant):
            return e.value
        if isinstance(e, ast.Name):
            if e.id in self.env:
                v = self.env[e.id]
                if isinstance(v, _Poison):
                    raise AnalysisError(f"replay loop: {e.id} is not modelled ({v.why})")
                return v
            raise AnalysisError(f"replay loop: free name {e.id}")
        if isinstance(e, ast.DictComp) and len(e.generators) == 1:
            g = e.generators[0]
            out = {}
            saved = dict(self.env)
            for item in self._iterable(g.iter):
                self._bind(g.target, item)
                if all(self.ev(c) for c in g.ifs):
                    out[self.ev(e.key)] = self.ev(e.value)
            self.env = saved
            return out
        if isinstance(e, ast.Dict) and not e.keys:
            return {}
        if isinstance(e, ast.Attribute):
            if unparse(e) == "self.wrapper_id":
                return self.n
            if unparse(e) == "self.module_name":
                return _Sym("module")
            b = self.ev(e.value)
            if isinstance(b, _Owner) and e.attr == "name":
                return _Sym(b.name)
            return _Sym(f"{b}.{e.attr}")
        if isinstance(e, ast.BinOp) and isinstance(e.op, (ast.Add, ast.Sub)):
            l, r = self.ev(e.left), self.ev(e.right)
            if isinstance(l, int) and isinstance(r, int):
                return l + r if isinstance(e.op, ast.Add) else l - r
            return _Sym(f"({l}{'+' if isinstance(e.op, ast.Add) else '-'}{r})")
        if isinstance(e, ast.Compare) and len(e.ops) == 1:
            op = e.ops[0]
            l = self.ev(e.left)
            r = self.wmap if unparse(e.comparators[0]) == "self.wrapper_map" else self.ev(e.comparators[0])
            if isinstance(op, ast.Is):
                return l is r
            if isinstance(op, ast.IsNot):
                return l is not r
            if isinstance(op, ast.Eq):
                return l == r
            if isinstance(op, ast.NotEq):
                return l != r
            if isinstance(op, (ast.In, ast.NotIn)):
                if isinstance(r, (dict, list, tuple, set)):
                    return (l in r) if isinstance(op, ast.In) else (l not in r)
            raise AnalysisError("replay loop: comparison not modelled")
        if isinstance(e, ast.UnaryOp) and isinstance(e.op, ast.Not):
            return not self.ev(e.operand)
        if isinstance(e, ast.BoolOp):
            # Python's value semantics: `a or b` is a when a is true, else b (evaluated left to right, short-circuit)
            v = None
            for x in e.values:
                v = self.ev(x)
                if bool(v) != isinstance(e.op, ast.And):
                    return v
            return v
        if isinstance(e, ast.IfExp):
            return self.ev(e.body) if self.ev(e.test) else self.ev(e.orelse)
        if isinstance(e, ast.Subscript):
            i = self.ev(e.slice)
            if unparse(e.value) == "self.wrapper_map":
                if i in self.wmap:
                    return self.wmap[i]
                raise AnalysisError(f"replay loop: wrapper_map[{i}] read but id {i} has no entry")
            b = self.ev(e.value)
            if isinstance(b, _Entry) and isinstance(i, int):
                return b.get(i)
            if isinstance(b, dict):
                return b[i]
            raise AnalysisError(f"replay loop: subscript {unparse(e)} not modelled")
        if isinstance(e, ast.Call):
            f = unparse(e.func)
            if f == "self.wrapper_map.get":
                k = self.ev(e.args[0])
                return self.wmap.get(k) if isinstance(k, int) else None
            if isinstance(e.func, ast.Attribute) and e.func.attr == "get" and isinstance(e.func.value, ast.Name) \
                    and isinstance(self.env.get(e.func.value.id), dict):
                return self.env[e.func.value.id].get(self.ev(e.args[0]))
            if f == "self.generate_collector_function":
                k = self.ev(e.args[0])
                ent = self.wmap.get(k) if isinstance(k, int) else None
                if ent is not None:
                    self.events.append(("define", ent.get(3)))
                    return _Sym(f"routine({ent.tag})")
                return ""
            if f == "self.wrap_collector_function_upcast_from_void":
                a = [self.ev(x) for x in e.args]
                self.events.append(("define", ("upcast", a[0], a[1])))
                return _Sym("upcast-routine")
            if isinstance(e.func, ast.Attribute) and e.func.attr == "format":
                args = [self.ev(x) for x in e.args]
                base = e.func.value
                txt = None
                # textwrap.indent(textwrap.dedent('''...''')).format(...) or '...'.format(...)
                for c in ast.walk(base):
                    if isinstance(c, ast.Constant) and isinstance(c.value, str):
                        txt = c.value
                        break
                if txt is None:
                    # a template kept in a module-level constant (or a class attribute of the templates class)
                    root = self.fn
                    while getattr(root, "_parent", None) is not None:
                        root = root._parent
                    for nm in [x.id for x in ast.walk(base) if isinstance(x, ast.Name)] + [x.attr for x in ast.walk(base) if isinstance(x, ast.Attribute)]:
                        for st in ast.walk(root):
                            if isinstance(st, ast.Assign) and any(isinstance(t, ast.Name) and t.id == nm for t in st.targets) \
                                    and not isinstance(parent(st), ast.FunctionDef):
                                for c in ast.walk(st.value):
                                    if isinstance(c, ast.Constant) and isinstance(c.value, str):
                                        txt = c.value
                                        break
                            if txt is not None:
                                break
                        if txt is not None:
                            break
                if txt is None:
                    raise AnalysisError("replay loop: format on a non-literal")
                if "case" in txt:
                    self.events.append(("case", args[0], args[1]))
                    return _Sym("case-text")
                if "upcastFromVoid" in txt:
                    return ("upcast", args[0], args[1])
                return _Sym("text")
            if f in ("textwrap.indent", "textwrap.dedent"):
                return self.ev(e.args[0])
            if isinstance(e.func, ast.Attribute) and not e.args:
                b = self.ev(e.func.value)
                if isinstance(b, (_Owner, _Sym)):
                    return _Sym(f"{b.tag if isinstance(b, _Owner) else b}.{e.func.attr}()")
            if isinstance(e.func, ast.Attribute) and isinstance(e.func.value, ast.Name) and e.func.value.id == "self" and not e.keywords:
                # a naming helper applied to symbolic values: a symbol of its own (two sites agree iff they apply the same helper
                # to the same values)
                vals = [self.ev(a) for a in e.args]
                if all(isinstance(v, (_Owner, _Sym, str, int)) for v in vals):
                    return _Sym(f"{e.func.attr}({', '.join(v.tag if isinstance(v, _Owner) else str(v) for v in vals)})")
            raise AnalysisError(f"replay loop: call {f} is not modelled")
        raise AnalysisError(f"replay loop: expression {type(e).__name__} is not modelled")


def _replay(ctx, meth: str, n: int, wmap) -> List[tuple]:
    ci, prog = mw(ctx)
    fn, loop = _find_replay_loop(prog, ci, prog.method("MatlabWrapper", meth), meth)
    return LoopExec(fn, loop, n, wmap).run()


REPLAY_METHODS = ("generate_wrapper", "mex_function")      # each is replayed on its own


def _find_replay_loop(prog, ci, fn, meth: str, depth: int = 2):
    """The loop over the allocated ids in `meth`, or in a helper method that `meth` calls unconditionally (a long
    method split into parts keeps its replay loop in one of them)."""
    def is_id_loop(l):
        return isinstance(l, ast.For) and "wrapper_id" in unparse(l.iter)
    loops = [l for l in fn.body if is_id_loop(l)] or [l for l in fn.body if isinstance(l, ast.For)]
    if len(loops) == 1:
        return fn, loops[0]
    if len(loops) > 1:
        raise AnalysisError(f"{meth}: expected one top-level replay loop, found {len(loops)}")
    found = []
    if depth > 0:
        for st in fn.body:
            for c in ast.walk(st):
                if isinstance(c, ast.Call) and isinstance(c.func, ast.Attribute) and unparse(c.func.value) == "self" \
                        and not guards_of(c, fn, include_exits=False):
                    h = prog.find_method(ci, c.func.attr)
                    if h is not None and h[1] is not fn and c.func.attr not in REPLAY_METHODS and any(is_id_loop(l) for l in h[1].body):
                        found.append(_find_replay_loop(prog, ci, h[1], f"{meth} -> {c.func.attr}", depth - 1))
    if len(found) != 1:
        raise AnalysisError(f"{meth}: expected one top-level replay loop, found {len(found)}")
    return found[0]


def rule_replay_loops(ctx, rep: Report, rid="I5"):
    ci, prog = mw(ctx)
    shapes = {
        "three ordinary ids": (3, {0: _Entry("E0"), 1: _Entry("E1"), 2: _Entry("E2")}),
        "virtual pair at 0,1 then an ordinary id": (3, {1: _Entry("V", role="collectorInsertAndMakeBase"), 2: _Entry("E2")}),
        "ordinary id, virtual pair at 1,2": (3, {0: _Entry("E0"), 2: _Entry("V", role="collectorInsertAndMakeBase")}),
        "two virtual pairs back to back": (4, {1: _Entry("V1", role="collectorInsertAndMakeBase"), 3: _Entry("V2", role="collectorInsertAndMakeBase")}),
        "virtual pair last": (2, {1: _Entry("V", role="collectorInsertAndMakeBase")}),
        "two virtual classes with the same unqualified name (different namespaces)":
            (5, {1: _Entry("V1", "Model", role="collectorInsertAndMakeBase"), 2: _Entry("E"), 4: _Entry("V2", "Model", role="collectorInsertAndMakeBase")}),
    }
    for label, (n, wmap) in shapes.items():
        holes = [i for i in range(n) if i not in wmap]
        try:
            gen = _replay(ctx, "generate_wrapper", n, wmap)
            mex = _replay(ctx, "mex_function", n, wmap)
        except AnalysisError as ex:
            # the loops are written with constructs the abstract replay does not model: the concrete run (I14) decides, if it could be made
            if dispatch_table_verdict(ctx) is not None:
                rep.add(rid, f"{label}:abstract replay", True, f"not modelled ({ex}); decided by the concrete run of mex_function (I14)", f"{ci.mod.rel}:0", nontrivial=False)
                continue
            raise
        cases = {}
        dup = []
        for ev in mex:
            if ev[0] == "case":
                if ev[1] in cases:
                    dup.append(ev[1])
                cases[ev[1]] = ev[2]
        defined: Dict[object, int] = {}
        for ev in gen:
            if ev[0] == "define":
                defined[ev[1]] = defined.get(ev[1], 0) + 1
        loc = f"{ci.mod.rel}:{prog.method('MatlabWrapper', 'mex_function').lineno}"
        rep.add(rid, f"{label}:every id has exactly one case", sorted(cases) == list(range(n)) and not dup,
                f"ids 0..{n - 1}, cases for {sorted(cases)}, duplicated {dup}", loc)
        # expected routing
        want = {}
        for i in range(n):
            if i in wmap and (i - 1) not in holes:
                want[i] = wmap[i].get(3)
            elif i in holes:
                want[i] = wmap[i + 1].get(3)                 # the .m collector call uses the lower id
            else:
                want[i] = ("upcast", _Sym(wmap[i].owner_name), i)   # the .m up-cast call uses the higher id
        got = {i: cases.get(i) for i in range(n)}
        # the spelling of the up-cast routine's name is free as long as definition and call agree (checked below);
        # what is fixed here is *which* entry's up-cast a reserved id reaches
        def norm(v):
            return ("upcast", "<name>", v[2]) if isinstance(v, tuple) and len(v) == 3 and v[0] == "upcast" else v
        owners_ok = all(not (isinstance(got.get(i), tuple) and got[i][0] == "upcast") or
                        (wmap[i].owner_name in str(got[i][1]) or wmap[i].tag in str(got[i][1])) for i in range(n) if i in wmap)
        rep.add(rid, f"{label}:each case calls the routine of the same map entry / the up-cast of the pair",
                {k: norm(v) for k, v in got.items()} == {k: norm(v) for k, v in want.items()} and owners_ok,
                f"dispatch {got}, expected {want}", loc)
        called = set(cases.values())
        loc2 = f"{ci.mod.rel}:{prog.method('MatlabWrapper', 'generate_wrapper').lineno}"
        rep.add(rid, f"{label}:every called routine is defined exactly once and nothing else is defined",
                set(defined) == called and all(c == 1 for c in defined.values()),
                f"defined {defined}, called {sorted(map(str, called))}", loc2)
    # the up-cast routine's name as the template spells it
    from .emit import Folder
    tci = prog.cls("WrapperTemplate")
    tv = prog.find_attr(tci, "collector_function_upcast_from_void")
    t = Folder(prog, tci.mod, None, tci).fold(tv[1]) if tv else None
    lit = t.literal("@") if t is not None else ""
    rep.add(rid, "up-cast routine is defined as <owner>_upcastFromVoid_<id>", lit.startswith("void {class_name}_upcastFromVoid_{id}("),
            lit[:60], f"{tci.mod.rel}:0")
    fn = prog.method("MatlabWrapper", "wrap_collector_function_upcast_from_void")
    c = next((x for x in ast.walk(fn) if isinstance(x, ast.Call) and isinstance(x.func, ast.Attribute) and x.func.attr == "format"), None)
    kw = {k.arg: unparse(k.value) for k in c.keywords} if c else {}
    ps = func_params(fn)[1:]
    rep.add(rid, "up-cast routine: template receives (owner name, id) in that order",
            kw.get("class_name") == ps[0] and kw.get("id") == ps[1], f"{kw}", f"{ci.mod.rel}:{fn.lineno}")


# ------------------------------------------------------------------------------------------
def rule_roles(ctx, rep: Report, rid="I6"):
    """Every role a call site registers has a branch in generate_collector_function, and a role is
    never recovered from a field that carries user identifiers."""
    ci, prog = mw(ctx)
    sites = inventory(ctx)
    gc = prog.method("MatlabWrapper", "generate_collector_function")
    # literal tags / payload kinds registered
    tags: Set[str] = set()
    user_named = []
    for s in sites:
        if isinstance(s.role, ast.Tuple) and len(s.role.elts) == 4:
            r = s.role.elts[2]
            if isinstance(r, ast.Constant):
                tags.add(r.value)
            else:
                user_named.append((s, unparse(r)))
    # comparisons of a registered literal tag with some expression
    lit_tests: List[Tuple[str, ast.Compare, ast.AST]] = []
    for c in ast.walk(gc):
        if isinstance(c, ast.Compare) and len(c.ops) == 1 and isinstance(c.ops[0], ast.Eq):
            l, r = c.left, c.comparators[0]
            if isinstance(l, ast.Constant):
                l, r = r, l
            if isinstance(r, ast.Constant) and isinstance(r.value, str) and r.value in tags:
                lit_tests.append((r.value, c, l))
    handled = {t for t, _, _ in lit_tests}
    payload_tests = unparse(gc)
    for t in sorted(tags):
        ok = t in handled or (t in ("string_serialize", "string_deserialize") and f"== '{t.split('_')[1]}'" in payload_tests) \
            or (t == "global_function")
        rep.add(rid, f"role:{t}:has a branch in generate_collector_function", ok,
                f"role {t!r} is registered by a call site but never dispatched: its routine body stays empty",
                f"{ci.mod.rel}:{gc.lineno}")

    def is_slot2(e) -> bool:
        return isinstance(e, ast.Subscript) and isinstance(e.slice, ast.Constant) and e.slice.value == 2

    payload_locals = {st.targets[0].id for sts in local_assignments(gc).values() for st in sts
                      if isinstance(st, ast.Assign) and isinstance(st.targets[0], ast.Name) and isinstance(st.value, ast.Subscript)
                      and isinstance(st.value.slice, ast.Constant) and st.value.slice.value == 4}

    def is_payload(e) -> bool:
        return (isinstance(e, ast.Name) and e.id in payload_locals) or \
            (isinstance(e, ast.Subscript) and isinstance(e.slice, ast.Constant) and e.slice.value == 4)

    def kind_predicates(e) -> bool:
        """Does the expression test the kind of the *payload* (isinstance of slot 4 / a local bound to it)?"""
        for x in ast.walk(e):
            if isinstance(x, ast.Call) and unparse(x.func) == "isinstance" and x.args and is_payload(x.args[0]):
                return True
            if isinstance(x, ast.Name):
                for st in local_assignments(gc).get(x.id, []):
                    if isinstance(st, ast.Assign) and isinstance(st.value, ast.Call) and unparse(st.value.func) == "isinstance" \
                            and st.value.args and is_payload(st.value.args[0]):
                        return True
        return False

    # the payload kinds that carry a user-chosen name in slot 2: every isinstance test of the payload in this function
    kind_of_flag: Dict[str, str] = {}
    for v_, sts in local_assignments(gc).items():
        for st in sts:
            if isinstance(st, ast.Assign) and isinstance(st.value, ast.Call) and unparse(st.value.func) == "isinstance" \
                    and st.value.args and is_payload(st.value.args[0]):
                if not isinstance(st.value.args[1], ast.Tuple):
                    kind_of_flag[v_] = unparse(st.value.args[1])
    all_kinds = set()
    for x in ast.walk(gc):
        if isinstance(x, ast.Call) and unparse(x.func) == "isinstance" and x.args and is_payload(x.args[0]):
            all_kinds |= {unparse(k) for k in x.args[1].elts} if isinstance(x.args[1], ast.Tuple) else {unparse(x.args[1])}
    all_kinds = sorted(all_kinds)

    def holds_for_kind(e, kind: str) -> Optional[bool]:
        """Truth of a guard when the payload is of exactly `kind` (None: not a pure test of the payload's kind)."""
        if isinstance(e, ast.BoolOp):
            vals = [holds_for_kind(v, kind) for v in e.values]
            if any(v is None for v in vals):
                return None
            return any(vals) if isinstance(e.op, ast.Or) else all(vals)
        if isinstance(e, ast.UnaryOp) and isinstance(e.op, ast.Not):
            v = holds_for_kind(e.operand, kind)
            return None if v is None else not v
        if isinstance(e, ast.Name) and e.id in kind_of_flag:
            return kind_of_flag[e.id] == kind
        if isinstance(e, ast.Call) and unparse(e.func) == "isinstance" and e.args and is_payload(e.args[0]):
            ks = [unparse(x) for x in e.args[1].elts] if isinstance(e.args[1], ast.Tuple) else [unparse(e.args[1])]
            return kind in ks
        return None
    if user_named and all_kinds:
        # wherever the role is withheld (`role = None`) under a test of the payload's kind, the test holds for each kind alone
        for st in walk_no_nested(gc):
            if isinstance(st, ast.Assign) and isinstance(st.value, ast.Constant) and st.value.value is None and isinstance(st.targets[0], ast.Name):
                gs = guards_of(st, gc, include_exits=False)
                if not gs:
                    continue
                test = ast.parse(gs[-1][0], mode="eval").body
                missing = [k for k in all_kinds if holds_for_kind(test, k) is False]
                if any(holds_for_kind(test, k) is None for k in all_kinds):
                    continue
                rep.add(rid, "role-tag:withheld for every kind of payload that carries a user-chosen name", not missing,
                        f"`{gs[-1][0]}` is false for a payload of kind {missing}: for those, slot 2 (the user's method / property name) is still compared "
                        f"with the role tags, so a C++ static method named `constructor` is generated through the constructor branch",
                        f"{ci.mod.rel}:{st.lineno}")
    if user_named:
        for tag, cmp_, subj in lit_tests:
            if tag in ("string_serialize", "string_deserialize", "global_function"):
                continue
            node = cmp_
            while node is not None and not isinstance(node, (ast.If, ast.IfExp)):
                node = parent(node)
            protected = False
            how = ""
            if is_slot2(subj):
                gs = [g for g, pol in guards_of(cmp_, gc, include_exits=False)]
                protected = any(kind_predicates(ast.parse(g, mode="eval").body) for g in gs) or \
                    (isinstance(parent(cmp_), ast.BoolOp) and kind_predicates(parent(cmp_)))
                how = f"`{unparse(cmp_)}` reads slot 2 directly"
            elif isinstance(subj, ast.Name):
                defs = [st for st in local_assignments(gc).get(subj.id, []) if isinstance(st, ast.Assign)]
                # role = None under a payload-kind test, slot 2 otherwise
                ok_defs = bool(defs)
                for st in defs:
                    v = st.value
                    if isinstance(v, ast.IfExp):
                        ok_defs = ok_defs and kind_predicates(v.test)
                    elif is_slot2(v):
                        gs = guards_of(st, gc, include_exits=False)
                        ok_defs = ok_defs and any(kind_predicates(ast.parse(g, mode="eval").body) for g, pol in gs)
                    elif isinstance(v, ast.Constant) and v.value is None:
                        continue
                    else:
                        ok_defs = False
                protected = ok_defs
                how = f"`{subj.id}` = {[unparse(st.value) for st in defs]}"
            rep.add(rid, f"role-tag:{tag}:not confusable with a user-chosen name", protected,
                    f"slot 2 of the role tuple carries the literal tag {tag!r} for this role but the *user's* method / "
                    f"property name for others ({sorted({u for _, u in user_named})[:3]}); {how} without first excluding "
                    f"method/property payloads: a C++ method named `{tag}` is generated through the {tag} branch",
                    f"{ci.mod.rel}:{cmp_.lineno}")
    # the other readers of the map (the two replay loops, anything else that walks it): slot 2 holds the role tag for
    # class-level routines only; for methods, static methods and properties it is the *user's* member name, so no reader
    # may compare it with a role tag (a member named `collectorInsertAndMakeBase` would be taken for the class-level routine)
    if user_named:
        elsewhere = []
        scanned = 0
        for k_ in prog.mro(ci):
            for mname, mfn in k_.methods.items():
                if mfn is gc:
                    continue
                scanned += 1
                slot2_locals = {st.targets[0].id for st in walk_no_nested(mfn) if isinstance(st, ast.Assign) and len(st.targets) == 1
                                and isinstance(st.targets[0], ast.Name) and is_slot2(st.value)}
                for c in walk_no_nested(mfn):
                    if not (isinstance(c, ast.Compare) and len(c.ops) == 1 and isinstance(c.ops[0], (ast.Eq, ast.NotEq, ast.In, ast.NotIn))):
                        continue
                    sides = [c.left, c.comparators[0]]
                    lits = {x.value for s_ in sides for x in ast.walk(s_) if isinstance(x, ast.Constant) and isinstance(x.value, str)} & tags
                    reads = [s_ for s_ in sides if is_slot2(s_) or (isinstance(s_, ast.Name) and s_.id in slot2_locals)]
                    if lits and reads:
                        elsewhere.append((mname, c))
        rep.add(rid, "role-tag:no reader of the map outside generate_collector_function recovers a role from slot 2", not elsewhere,
                "; ".join(f"{m}: `{unparse(c)[:60]}` (line {c.lineno})" for m, c in elsewhere[:3]) +
                f": slot 2 is the user's member name for {sorted({u for _, u in user_named})[:3]}; a member called like a role tag is then treated as the "
                f"class-level routine (e.g. an extra up-cast routine that no case calls)", f"{ci.mod.rel}:{elsewhere[0][1].lineno if elsewhere else gc.lineno}")
        if scanned < 30:
            raise AnalysisError(f"{rep.prop}/{rid}: only {scanned} methods of the MATLAB wrapper were scanned")
    # getter / setter recovered by substring of a routine name built from user identifiers
    for c in ast.walk(gc):
        if isinstance(c, ast.Compare) and len(c.ops) == 1 and isinstance(c.ops[0], ast.In) \
                and isinstance(c.left, ast.Constant) and isinstance(c.left.value, str) and isinstance(c.comparators[0], ast.Name):
            v = c.comparators[0].id
            src = [unparse(st.value) for st in local_assignments(gc).get(v, []) if isinstance(st, ast.Assign)]
            rep.add(rid, f"role-by-substring:{c.left.value!r} in {v}", False,
                    f"the getter/setter role is recovered by searching {c.left.value!r} inside `{v}` (= {src[:1]}), a "
                    f"routine name built from namespace, class and property names: a property or class whose name "
                    f"contains {c.left.value!r} matches both, so its setter routine also contains the getter body",
                    f"{ci.mod.rel}:{c.lineno}")

    props = [i for i in ast.walk(gc) if isinstance(i, ast.If) and isinstance(i.test, ast.Call)
             and isinstance(i.test.func, ast.Attribute) and i.test.func.attr == "startswith"
             and any(isinstance(x, ast.Constant) and x.value in ("_get_", "_set_") for x in ast.walk(i.test))]
    kinds = sorted({x.value for i in props for x in ast.walk(i.test) if isinstance(x, ast.Constant) and x.value in ("_get_", "_set_")})
    rep.add(rid, "property role:getter and setter told apart by the exact prefix <Class>_get_/<Class>_set_ of the routine name",
            kinds == ["_get_", "_set_"] and all("+" in unparse(i.test.args[0]) for i in props),
            f"prefix tests found for {kinds}", f"{ci.mod.rel}:{gc.lineno}")
    # ... and the prefix tested here is spelt from the same tuple slots as the name given at the call site
    wcp = prog.method("MatlabWrapper", "wrap_class_properties")
    built: Dict[str, Set[str]] = {}
    for c in ast.walk(wcp):
        if isinstance(c, ast.Call) and unparse(c.func) == "self._update_wrapper_id" and c.args and isinstance(c.args[0], ast.Tuple):
            tup = c.args[0]
            fname = next((k.value for k in c.keywords if k.arg == "function_name"), c.args[2] if len(c.args) > 2 else None)
            if fname is None or len(tup.elts) < 2:
                continue
            from .rules_alias import reaching_defs
            e = fname
            if isinstance(e, ast.Name):
                defs, _k = reaching_defs(wcp, e.id, c)
                vals = [d.value for d in defs if isinstance(d, ast.Assign)]
                if len(vals) != 1:
                    raise AnalysisError(f"wrap_class_properties: routine name {e.id} has {len(vals)} reaching definitions")
                e = vals[0]
            txt = unparse(e).replace(unparse(tup.elts[1]), "<S1>").replace(unparse(tup.elts[0]), "<S0>")
            for tag in ("_get_", "_set_"):
                if repr(tag) in txt:
                    built.setdefault(tag, set()).add(txt.split(repr(tag))[0] + repr(tag))
    mapdef = next((st for st in walk_no_nested(gc) if isinstance(st, ast.Assign) and isinstance(st.targets[0], ast.Name)
                   and "wrapper_map" in unparse(st.value)), None)
    mapvar = mapdef.targets[0].id if mapdef is not None else None
    mapexpr = unparse(mapdef.value) if mapdef is not None else None
    for i in props:
        tag = next(x.value for x in ast.walk(i.test) if isinstance(x, ast.Constant) and x.value in ("_get_", "_set_"))
        pref = unparse(inline_locals(gc, i.test.args[0]))
        for base in ([mapvar, mapexpr] if mapvar else []):
            pref = pref.replace(f"{base}[1]", "<S1>").replace(f"{base}[0]", "<S0>")
        want = built.get(tag, set())
        rep.add(rid, f"property role:{tag}:the tested prefix is spelt like the routine name registered by wrap_class_properties",
                want == {pref}, f"generate_collector_function tests the prefix `{pref}`; wrap_class_properties names the routine "
                f"`{sorted(want)}...` (S0/S1 = slots 0/1 of the registered tuple): when the two spellings differ for some class "
                f"(e.g. a typedef instantiated in another namespace than its template) neither / the wrong accessor body is emitted",
                f"{ci.mod.rel}:{i.lineno}")


def rule_one_run_writes_every_file(ctx, rep: Report, rid="I7"):
    """The ids in the .m files and the `case` labels of <module>_wrapper.cpp belong together only when both come from the
    *same* run: generate_content writes every entry of the content list, whatever the output folder already holds.  A write
    that is skipped when a file of the same name (size, date) exists keeps call sites of an earlier numbering next to a
    freshly numbered dispatch table.  Decided structurally: inside generate_content (and the helper it hands path and text
    to) the write of an entry's text is on every path through the entry's branch, and no test on that path asks the file
    system about the output file."""
    from .rules_cli import _write_sites, exits_before
    ci, prog = mw(ctx)
    gc_ = prog.method("MatlabWrapper", "generate_content")
    loc = f"{ci.mod.rel}:{gc_.lineno}"
    sites = _write_sites(gc_, prog, ci)
    rep.add(rid, "generate_content:files are written by this function (directly or through a helper that writes on every path)", len(sites) >= 2,
            f"{len(sites)} write site(s) found for the two kinds of content entry (class file, namespace scope): a helper that may return "
            f"without writing is not counted", loc)
    FS_TESTS = ("isfile", "exists", "getsize", "getmtime", "stat", "samefile", "filecmp", "cmp")
    bad = []
    for call, pathx, textx in sites:
        for t, pol in guards_of(call, gc_, include_exits=True):
            if any(w in t for w in FS_TESTS) and unparse(pathx) in t:
                bad.append(f"line {call.lineno}: written only when `{t}` is {pol}")
    rep.add(rid, "generate_content:no write depends on what the output folder already holds", not bad,
            f"{bad}: a file left from an earlier run keeps ids of that run's numbering while the gateway source is regenerated", loc)
    # every kind of entry reaches a write: each branch of the dispatch on the entry's shape writes, or hands its parts to this function again
    chain = next((i for i in gc_.body if isinstance(i, ast.For)), None)
    top = next((i for i in (chain.body if chain is not None else []) if isinstance(i, ast.If)), None)
    k = 0
    while top is not None:
        blocks = [(unparse(top.test)[:40], top.body)]
        nxt = None
        if len(top.orelse) == 1 and isinstance(top.orelse[0], ast.If):
            nxt = top.orelse[0]
        elif top.orelse:
            blocks.append(("otherwise", top.orelse))
        for label, blk in blocks:
            mod_ = ast.Module(body=blk, type_ignores=[])
            has = any(any(x is s_[0] for x in ast.walk(mod_)) for s_ in sites) or \
                any(isinstance(x, ast.Call) and unparse(x.func) == f"self.{gc_.name}" for x in ast.walk(mod_))
            k += 1
            rep.add(rid, f"generate_content:entry kind #{k} ({label}):written, or taken apart and handed to generate_content again", has,
                    "neither a write nor a recursive call on this branch: the files of this kind are not produced", f"{ci.mod.rel}:{top.lineno}")
        top = nxt
    if k < 2:
        raise AnalysisError("generate_content: dispatch on the shape of a content entry not found")


def rule_entry_describes_its_own_overload(ctx, rep: Report, rid="I8"):
    """An id allocated inside a loop over the overloads of one name (or over constructors / properties) is registered with an
    entry that describes *that* element: the role tuple mentions the loop's own variable (`overload`, `function[i]`).  An
    entry built from something fixed for the whole group (`group[0]`) gives every id of the group the routine of the first
    overload - argument counts, unwrapping and the call no longer belong to the .m branch that passes the id."""
    ci, prog = mw(ctx)
    n = 0
    sites = inventory(ctx)
    for s in sites:
        loop = enclosing(s.call, ast.For)
        if loop is None or not (isinstance(s.role, ast.Tuple) and len(s.role.elts) == 4):
            continue
        n += 1
        tv = {x.id for x in ast.walk(loop.target) if isinstance(x, ast.Name)}
        # locals of the loop body that are computed from the loop variable count as "its own" too
        own = set(tv)
        changed = True
        while changed:
            changed = False
            for st in ast.walk(loop):
                if isinstance(st, ast.Assign) and len(st.targets) == 1 and isinstance(st.targets[0], ast.Name) and st.targets[0].id not in own \
                        and any(isinstance(x, ast.Name) and x.id in own for x in ast.walk(st.value)):
                    own.add(st.targets[0].id)
                    changed = True
        payload = s.role.elts[3]
        if isinstance(payload, ast.Constant) and payload.value is None:
            payload = s.role.elts[1]      # a free function's entry carries the overload as its owner
        mentions = any(isinstance(x, ast.Name) and x.id in own for x in ast.walk(payload))
        rep.add(rid, f"site:{s.fn.name}#{_ordinal(sites, s)}:the registered entry is the element the loop is at", mentions,
                f"the entry's payload is `{unparse(payload)[:40]}`, the loop runs over `{unparse(loop.iter)[:30]}` as `{unparse(loop.target)}`: every id allocated "
                f"in this loop is mapped to the same element, so the `case` of each later overload runs the first overload's routine",
                f"{ci.mod.rel}:{s.call.lineno}")
    if n < 4:
        raise AnalysisError(f"{rep.prop}/{rid}: only {n} allocation sites inside loops")


def _all_methods(prog, ci) -> Dict[str, ast.FunctionDef]:
    out: Dict[str, ast.FunctionDef] = {}
    for c in reversed(prog.mro(ci)):
        out.update(c.methods)
    return out


def run_constructor_emitter(ctx, virt: bool, par: bool):
    """(emitted text, the sample wrapper object) of wrap_class_constructors run by the analyser's interpreter on a sample class
    `ns::Derived` (virtual or not, with base `ns::Base` or without, no constructors of its own); None when not evaluable."""
    from .rules_matlab import SampleObj, _PathEval, _Raised, mini_exec
    ci, prog = mw(ctx)
    fn = prog.method("MatlabWrapper", "wrap_class_constructors")
    ps = func_params(fn)
    if len(ps) != 6:
        return None
    me = SampleObj(module_name="mod", wrapper_id=7, wrapper_map={}, ignore_namespace=("Matrix", "Vector", "Point2", "Point3"), data_type={}, data_type_param={})
    root = SampleObj(__kind__="Namespace", name="", parent="")
    nsn = SampleObj(__kind__="Namespace", name="ns", parent=root)
    cls = SampleObj(__kind__="InstantiatedClass", name="Derived", parent=nsn, is_virtual=virt, namespaces=lambda: ["", "ns"])
    pname = SampleObj(__kind__="Typename", name="Base", namespaces=["ns"], instantiations=[]) if par else ""
    try:
        text = mini_exec(fn, {ps[0]: me, ps[1]: "ns", ps[2]: cls, ps[3]: pname, ps[4]: [], ps[5]: virt}, budget=12000, methods=_all_methods(prog, ci))
    except (_PathEval.Unknown, _Raised, TypeError, KeyError):
        return None
    return (text, me) if isinstance(text, str) else None


def rule_pointer_constructor_by_evaluation(ctx, rep: Report, rid="I9"):
    """The branch of a generated MATLAB constructor that takes an existing C++ object over (`nargin == 2 && varargin{1} ==
    uint64(5139824614673773682)`) registers the handle with the collector - by the id under which the
    collectorInsertAndMakeBase routine of that class is named - keeps the base handle the routine hands back when the class
    has a base (`base_ptr = ...`, used by `obj = obj@Base(..., base_ptr)`), and for a virtual class up-casts through the id
    next to it.  Decided by running wrap_class_constructors (the analyser's own interpreter, sample classes) for the four
    combinations of virtual / not virtual and with / without a base class, and reading the emitted text."""
    from .rules_matlab import SampleObj, _PathEval, _Raised, mini_exec
    ci, prog = mw(ctx)
    fn = prog.method("MatlabWrapper", "wrap_class_constructors")
    ps = func_params(fn)
    methods = _all_methods(prog, ci)
    loc = f"{ci.mod.rel}:{fn.lineno}"
    if len(ps) != 6:
        rep.add(rid, "wrap_class_constructors evaluated on sample classes", True, "signature changed; I3/I4 decide by structure", loc, nontrivial=False)
        return
    evaluated = 0
    for virt in (False, True):
        for par in (False, True):
            me = SampleObj(module_name="mod", wrapper_id=7, wrapper_map={}, ignore_namespace=("Matrix", "Vector", "Point2", "Point3"), data_type={}, data_type_param={})
            root = SampleObj(__kind__="Namespace", name="", parent="")
            nsn = SampleObj(__kind__="Namespace", name="ns", parent=root)
            cls = SampleObj(__kind__="InstantiatedClass", name="Derived", parent=nsn, is_virtual=virt, namespaces=lambda: ["", "ns"])
            pname = SampleObj(__kind__="Typename", name="Base", namespaces=["ns"], instantiations=[]) if par else ""
            label = f"{'virtual' if virt else 'plain'} class {'with' if par else 'without'} a base"
            try:
                text = mini_exec(fn, {ps[0]: me, ps[1]: "ns", ps[2]: cls, ps[3]: pname, ps[4]: [], ps[5]: virt}, budget=12000, methods=methods)
            except (_PathEval.Unknown, _Raised, TypeError, KeyError):
                continue
            if not isinstance(text, str):
                continue
            evaluated += 1
            wm = me.get("wrapper_map")
            regs = [(k, v) for k, v in (wm.items() if isinstance(wm, dict) else []) if isinstance(v, (list, tuple)) and any(x == "collectorInsertAndMakeBase" for x in v)]
            inserts = re.findall(r"^\s*((?:\w+\s*=\s*)?)(\w+)\((\d+),\s*my_ptr\);\s*$", text, re.M)
            upcasts = re.findall(r"my_ptr\s*=\s*(\w+)\((\d+),\s*varargin\{2\}\);", text)
            probs = []
            if len(inserts) != 1:
                probs.append(f"{len(inserts)} collector registration(s) of my_ptr in the pointer-constructor branch")
            else:
                prefix, gw, num = inserts[0]
                if bool(prefix.strip()) != par:
                    probs.append("the base handle handed back by the collector routine is " + ("dropped" if par else "assigned although the class has no base"))
                elif par and not prefix.strip().startswith("base_ptr"):
                    probs.append(f"the base handle is kept in `{prefix.strip()}`, the base constructor is given `base_ptr`")
                if len(regs) != 1:
                    probs.append(f"{len(regs)} collectorInsertAndMakeBase routine(s) registered")
                else:
                    rname = next((x for x in regs[0][1] if isinstance(x, str) and x.endswith("_" + str(regs[0][0])) or (isinstance(x, str) and re.search(r"_\d+$", x))), None)
                    suffix = re.search(r"_(\d+)$", rname).group(1) if rname else None
                    if suffix is not None and suffix != num:
                        probs.append(f"the .m file registers through id {num}, the collector routine is {rname}")
                if virt:
                    if len(upcasts) != 1:
                        probs.append(f"{len(upcasts)} up-cast call(s) for a virtual class")
                    elif abs(int(upcasts[0][1]) - int(num)) != 1:
                        probs.append(f"up-cast id {upcasts[0][1]} and registration id {num} are not neighbours")
                elif upcasts:
                    probs.append("an up-cast call for a class that is not virtual")
            if par and not re.search(r"obj\s*=\s*obj@ns\.Base\(uint64\(5139824614673773682\),\s*base_ptr\);", text):
                probs.append("the base-class constructor is not called with the base handle")
            rep.add(rid, f"pointer constructor:{label}:registers under the collector routine's id and keeps the base handle", not probs,
                    f"{probs}: an object handed back from C++ is registered under another routine, or its base handle is in no collector (never released, "
                    f"and `base_ptr` is undefined when the base constructor is called)", loc)
    rep.units["constructor_emitter_runs"] = evaluated
    if evaluated == 0:
        rep.add(rid, "wrap_class_constructors evaluated on sample classes", True, "not evaluable; I3/I4 decide by structure", loc, nontrivial=False)


def _emitter_samples(ctx):
    """Sample declarations for running the .m emitters: a class `ns::K` with methods and static methods whose overloads are
    declared apart, shorter before longer, and with a defaulted parameter; and two overloads of a free function."""
    from .rules_matlab import SampleObj, sample_wrapper
    root = SampleObj(__kind__="Namespace", name="", parent="")
    nsn = SampleObj(__kind__="Namespace", name="ns", parent=root, full_namespaces=lambda: ["", "ns"], content=[])
    root["content"] = [nsn]

    def ty(name, ns=()):
        return SampleObj(__kind__="Type", typename=SampleObj(__kind__="Typename", name=name, namespaces=list(ns), instantiations=[]),
                         is_const="", is_ref="", is_ptr="", is_shared_ptr="", is_basic=True)

    def mk_args(specs):
        al = []
        for sp_ in specs:
            n, t, ns, d = sp_[:4]
            ct = ty(t, ns)
            ct.update(sp_[4] if len(sp_) > 4 else {})
            al.append(SampleObj(__kind__="Argument", name=n, ctype=ct, default=d, parent=None))
        return SampleObj(__kind__="ArgumentList", args_list=al, parent=None)

    def rt(name):
        if isinstance(name, tuple):              # pair< a, b >
            return SampleObj(__kind__="ReturnType", type1=ty(name[0]), type2=ty(name[1]), is_void=lambda: False)
        return SampleObj(__kind__="ReturnType", type1=ty(name), type2="", is_void=lambda: name == "void")
    cls = SampleObj(__kind__="InstantiatedClass", name="K", parent=nsn, namespaces=lambda: ["", "ns"], properties=[], to_cpp=lambda: "ns::K",
                    is_virtual=False, parent_class="", template="", instantiations=[], enums=[], ctors=[], operators=[])

    def decl(kind, name, specs, ret="double", parent=cls):
        # members of an instantiated class are Instantiated* nodes, which derive from the parser's node of that kind
        m = SampleObj(__kind__="Instantiated" + kind, __bases__=[kind], name=name, args=mk_args(specs), return_type=rt(ret), parent=parent, template="", is_const="",
                      instantiations=[], to_cpp=lambda: name)
        m["original"] = m
        return m
    D = ("x", "double", (), None)
    statics = [decl("StaticMethod", "make", [D]), decl("StaticMethod", "zero", []), decl("StaticMethod", "both", [D], ret=("double", "size_t")),
               decl("StaticMethod", "reset", [], ret="void"),
               decl("StaticMethod", "make", [D, ("scale", "double", (), None), ("s", "K", ("ns",), "ns::K( 1,  2 )")]), decl("StaticMethod", "make", [])]
    # (`s` is left out at arity 2 and its name occurs inside the supplied `scale`: names are compared whole)
    # the class has an enum `Mode` of its own and takes, besides it, the enum of the same name that another class declares
    cls["enums"] = [SampleObj(__kind__="Enum", name="Mode", parent=cls, enumerators=[SampleObj(__kind__="Enumerator", name="Fast"), SampleObj(__kind__="Enumerator", name="Slow")])]
    EO, EK = ("m", "Mode", ("ns", "Other"), None), ("m", "Mode", ("ns", "K"), None)
    statics += [decl("StaticMethod", "spick", [EO], ret="void")]
    meths = [decl("Method", "at", [("i", "size_t", (), None)]), decl("Method", "size", [], ret="size_t"), decl("Method", "span", [D], ret=("double", "size_t")),
             decl("Method", "pick", [EO], ret="void"), decl("Method", "own", [EK], ret="void"), decl("Method", "step_2", [D]),
             decl("Method", "tag", [("label", "string", (), None, {"is_const": "const", "is_ref": "&"}), ("plain", "string", (), None)], ret="void"),
             decl("Method", "at", [("i", "size_t", (), None), ("j", "size_t", (), None), ("c", "double", (), "0.0")]), decl("Method", "at", [])]
    # (the first declaration is repeated, as happens when two interface files of a module share a helper: the list keeps both)
    funcs = [decl("GlobalFunction", "scale", [D], parent=nsn), decl("GlobalFunction", "scale", [D], parent=nsn),
             decl("GlobalFunction", "scale", [D, ("k", "K", ("ns",), None), ("w", "double", (), "1.0")], parent=nsn),
             decl("GlobalFunction", "scale", [("label", "string", (), None)], parent=nsn),
             decl("GlobalFunction", "halves", [D], ret=("double", "double"), parent=nsn), decl("GlobalFunction", "clear", [], ret="void", parent=nsn),
             decl("GlobalFunction", "norm_2", [D], parent=nsn)]
    cls["static_methods"] = statics
    cls["methods"] = meths

    def ctor(specs):
        c = SampleObj(__kind__="Constructor", name="K", args=mk_args(specs), parent=cls, template="", instantiations=[])
        c["original"] = c
        return c
    # a constructor all of whose parameters are defaulted (its arity-0 overload still passes both defaults), and one with a defaulted tail
    cls["ctors"] = [ctor([("a", "int", (), "1"), ("b", "double", (), "2.5")]),
                    ctor([D, ("y", "double", (), None), ("lbl", "string", (), '"k"')]), ctor([EO, ("z", "double", (), None), ("w", "double", (), None)]),
                    # (a brace-initialiser default, nested: the text goes into the routine as it is - braces are not format fields)
                    ctor([D, ("y", "double", (), None), ("z", "double", (), None), ("grid", "Matrix", ("gtsam",), "{{1, 2}, {}}")])]
    me = sample_wrapper(ctx, module_name="mod", wrapper_id=3, wrapper_map={}, use_boost_serialization=False, __kind__="MatlabWrapper")
    return me, cls, statics, meths, funcs


def rule_call_sites_by_evaluation(ctx, rep: Report, rid="I10", returns=False, guards=False):
    """Every branch of a generated .m function passes the id under which the routine of *that* overload is registered: the entry
    of the id map names the member the branch belongs to and takes as many arguments as the branch's guard counts.  Decided by
    running the emitters for static methods, methods and free functions (the analyser's own interpreter; the sample
    declarations are objects of the program's own classes, default arguments expanded by the tool's own code) and reading the
    emitted text next to the id map the run left behind."""
    from .rules_matlab import _PathEval, _Raised, mini_exec, program_classes
    ci, prog = mw(ctx)
    methods = _all_methods(prog, ci)
    classes = program_classes(prog, ["ArgumentList", "Argument", "MatlabWrapper", "Typename", "Type", "ReturnType"])
    runs = []
    for which in ("wrap_static_methods", "wrap_class_methods", "wrap_global_function") + (("wrap_class_constructors",) if guards else ()):
        fn = prog.method("MatlabWrapper", which)
        ps = func_params(fn)
        me, cls, statics, meths, funcs = _emitter_samples(ctx)
        try:
            if which == "wrap_class_constructors":
                env = dict(zip(ps, [me, "ns", cls, "", list(cls["ctors"]), False]))
            elif which == "wrap_static_methods":
                env = dict(zip(ps, [me, "ns", cls, [False]]))
            elif which == "wrap_class_methods":
                env = dict(zip(ps, [me, "ns", cls, list(meths), [False]]))
            else:
                # the free functions arrive grouped by name, one call per name
                names_ = []
                for f_ in funcs:
                    if f_["name"] not in names_:
                        names_.append(f_["name"])
                if len(ps) != 2:
                    continue
                text = ""
                for nm_ in names_:
                    t_ = mini_exec(fn, dict(zip(ps, [me, [f_ for f_ in funcs if f_["name"] == nm_]])), budget=120000, methods=methods, classes=classes)
                    text = text + t_ if isinstance(t_, str) else None
                if isinstance(text, str):
                    runs.append((which, fn, text, me))
                continue
            if len(env) != len(ps):
                continue
            text = mini_exec(fn, env, budget=120000, methods=methods, classes=classes)
        except (_PathEval.Unknown, _Raised, TypeError, KeyError, IndexError):
            continue
        if isinstance(text, str):
            runs.append((which, fn, text, me))
    rep.units["m_emitters_evaluated"] = len(runs)
    if not runs:
        rep.add(rid, "the .m emitters evaluated on sample declarations", True, "not evaluable; I3-I8 decide by structure", f"{ci.mod.rel}:0", nontrivial=False)
        return
    shape_probs: List[str] = []
    guard_probs: List[str] = []
    for which, fn, text, me in runs:
        wm = me.get("wrapper_map") if isinstance(me.get("wrapper_map"), dict) else {}
        probs = []
        cur = None
        seen_ids = []
        count = None
        for line in text.splitlines():
            m_ = re.match(r"\s*function\s+(?:\w+\s*=\s*)?(\w+)\(", line)
            if m_:
                cur, count = m_.group(1), None
                continue
            c_ = re.search(r"length\(varargin\)\s*==\s*(\d+)", line)
            if c_:
                count = int(c_.group(1))
            g_ = re.search(r"\b\w+_wrapper\((\d+)\s*,", line)
            if g_:
                id_ = int(g_.group(1))
                seen_ids.append(id_)
                ent = wm.get(id_)
                if ent is None:
                    probs.append(f"{cur}: the branch for {count} argument(s) passes id {id_}, which no routine is registered under")
                    continue
                objs = [x for x in ent if isinstance(x, dict) and "args" in x and "name" in x]
                obj = objs[-1] if objs else None
                if obj is None:
                    probs.append(f"{cur}: id {id_} is registered without the overload it belongs to")
                    continue
                n_args = len(obj["args"]["args_list"])
                if obj["name"] != cur:
                    probs.append(f"{cur}: the branch passes id {id_}, registered for `{obj['name']}`")
                elif count is not None and n_args != count:
                    probs.append(f"{cur}: the branch for {count} argument(s) passes id {id_}, whose routine was built for the overload with {n_args}")
        shape_probs += _output_shape_problems(text, wm)
        guard_probs += _guard_class_problems(text, wm)
        if sorted(seen_ids) != sorted(wm):
            probs.append(f"ids passed by the .m text {sorted(seen_ids)} / ids registered {sorted(wm)}")
        if len(set(seen_ids)) != len(seen_ids):
            probs.append(f"an id is passed by two branches: {sorted(seen_ids)}")
        if returns or guards:
            continue
        rep.add(rid, f"{which}:each branch passes the id registered for its own overload", not probs and bool(seen_ids),
                f"{probs[:3]}: the `case` that the branch reaches runs the routine of another overload (argument count, unwrapping and call belong to "
                f"that one), or of none", f"{ci.mod.rel}:{fn.lineno}")
    if (guards or returns) and len(runs) < (4 if guards else 3):
        raise AnalysisError(f"{rep.prop}/{rid}: only {[w_ for w_, *_ in runs]} of the .m emitters could be evaluated")
    if guards:
        rep.add(rid, "the class test of a parameter of class or enum type names the MATLAB class of the declared type", not guard_probs,
                f"{guard_probs[:4]}: a value of the declared type is turned away by the .m file, and a value of the other class is let through and read "
                f"by the routine as the declared one", f"{ci.mod.rel}:{runs[0][1].lineno}")
    if returns:
        rep.add(rid, "the gateway call of every branch is assigned to as many outputs as its overload returns", not shape_probs,
                f"{shape_probs[:4]}: a void routine assigns no output (MATLAB reports `output argument not assigned` after the C++ call has run), "
                f"the second value of a pair never reaches the caller", f"{ci.mod.rel}:{runs[0][1].lineno}")


def _output_shape_problems(text: str, wm: dict) -> List[str]:
    """The gateway call of each branch is assigned to as many outputs as the overload registered under its id returns: none
    for void, `varargout{1}` for one value, `[ varargout{1} varargout{2} ]` for a pair."""
    out = []
    for line in text.splitlines():
        g_ = re.search(r"^(.*?)\b\w+_wrapper\((\d+)\s*,", line)
        if not g_:
            continue
        ent = wm.get(int(g_.group(2)))
        objs = [x for x in (ent or ()) if isinstance(x, dict) and "return_type" in x and "name" in x]
        if not objs:
            continue
        ov = objs[-1]
        rt_ = ov["return_type"]
        n_out = 0 if (callable(rt_.get("is_void")) and rt_["is_void"]()) else (2 if rt_.get("type2") not in ("", None) else 1)
        lhs = re.sub(r"\s+", "", g_.group(1).split(";")[-1])
        lhs = re.sub(r"^(?:else)?if.*?\)(?=\[?varargout|$)", "", lhs)
        got = len(re.findall(r"varargout\{\d+\}", lhs)) if lhs.endswith("=") else 0
        if got != n_out:
            kind = ov.get("__kind__", "").replace("Instantiated", "")
            out.append(f"{kind} {ov['name']}({', '.join(a['name'] for a in ov['args']['args_list'])}) returns {n_out} value(s), the call is assigned to {got} output(s)")
    return out


def _guard_class_problems(text: str, wm: dict) -> List[str]:
    """For every branch: the `isa(varargin{k}, '<class>')` test of a parameter whose declared type is written with its namespaces
    (a class, an enum of a class) names exactly that type, `::` turned into `.`."""
    out = []
    pending: List[Tuple[int, str]] = []
    for line in text.splitlines():
        tests = [(int(k), c) for k, c in re.findall(r"isa\(varargin\{(\d+)\}\s*,\s*'([^']*)'\)", line)]
        if tests:
            pending = tests
        g_ = re.search(r"\b\w+_wrapper\((\d+)\s*,", line)
        if not g_:
            continue
        ent = wm.get(int(g_.group(1)))
        objs = [x for x in (ent or ()) if isinstance(x, dict) and "args" in x and "name" in x]
        if objs:
            ov = objs[-1]
            al = ov["args"]["args_list"]
            for k, got in pending:
                if 0 < k <= len(al):
                    tn = al[k - 1]["ctype"]["typename"]
                    ns_ = [n for n in tn["namespaces"] if n]
                    if ns_ and got != ".".join(ns_ + [tn["name"]]) and got not in ("double", "numeric", "char", "logical"):
                        kind = ov.get("__kind__", "").replace("Instantiated", "")
                        out.append(f"{kind} {ov['name']}: parameter {k} is declared {'::'.join(ns_ + [tn['name']])}, the guard tests isa(.., '{got}')")
        pending = []
    return out


def _balanced_args(text: str, start: int) -> Optional[List[str]]:
    """The top-level comma-separated arguments of the call whose `(` is at text[start]."""
    depth, cur, out = 0, "", []
    for ch in text[start:]:
        if ch in "([{<" and not (ch == "<" and depth == 0 and False):
            depth += 1
            if depth > 1:
                cur += ch
        elif ch in ")]}>":
            depth -= 1
            if depth == 0:
                if cur.strip() or out:
                    out.append(cur.strip())
                return out
            cur += ch
        elif ch == "," and depth == 1:
            out.append(cur.strip())
            cur = ""
        else:
            cur += ch
    return None


def rule_routines_by_evaluation(ctx, rep: Report, rid="I11", conversions=True):
    """The C++ routine generated for an id belongs to the overload the id was registered for: it is named with that id, checks
    for as many arguments as that overload takes (`nargin-1` behind a receiver), unwraps the k-th supplied parameter from the
    k-th input (one further for a method), and calls the declared entity with the supplied parameters in order followed by
    the original text of every omitted default.  Decided by running the .m emitters on sample declarations and then
    `generate_collector_function` for every id the run registered (the analyser's own interpreter), and reading the routine."""
    from .rules_matlab import _PathEval, _Raised, mini_exec, program_classes
    ci, prog = mw(ctx)
    methods = _all_methods(prog, ci)
    classes = program_classes(prog, ["ArgumentList", "Argument", "MatlabWrapper", "Typename", "Type", "ReturnType"])
    me, cls, statics, meths, funcs = _emitter_samples(ctx)
    gc = prog.method("MatlabWrapper", "generate_collector_function")
    loc = f"{ci.mod.rel}:{gc.lineno}"
    try:
        gm = prog.method("MatlabWrapper", "_group_methods")
        groups = mini_exec(gm, dict(zip(func_params(gm), [me, list(funcs)])), budget=60000, methods=methods, classes=classes)
        if not (isinstance(groups, list) and groups and all(isinstance(g_, list) for g_ in groups)):
            raise _PathEval.Unknown("grouping of the sample functions")
        for which, argv in [("wrap_static_methods", [me, "ns", cls, [False]]), ("wrap_class_methods", [me, "ns", cls, list(meths), [False]]),
                            ("wrap_class_constructors", [me, "ns", cls, "", list(cls["ctors"]), False])] + \
                [("wrap_global_function", [me, g_]) for g_ in groups]:
            fn = prog.method("MatlabWrapper", which)
            ps = func_params(fn)
            if len(ps) != len(argv):
                raise _PathEval.Unknown(f"signature of {which}")
            mini_exec(fn, _with_templates(ctx, dict(zip(ps, argv))), budget=120000, methods=methods, classes=classes)
        wm = me.get("wrapper_map")
        if not isinstance(wm, dict) or len(wm) < 8 or len(func_params(gc)) != 2:
            raise _PathEval.Unknown("id map of the sample run")
        routines = {}
        for fid in sorted(wm):
            routines[fid] = mini_exec(gc, _with_templates(ctx, {func_params(gc)[0]: me, func_params(gc)[1]: fid}), budget=200000, methods=methods, classes=classes)
    except _Raised as ex:
        # the generator itself raises on the sample declarations (all of them legal): no wrapper would be produced for such a module
        rep.add(rid, "routines:the generator produces a routine for every registered id of the sample declarations", False,
                f"running the emitters / generate_collector_function on the samples raises {str(ex)[:90]}: an interface with such a declaration "
                f"(a brace-initialiser default, an enum parameter, a pair return ...) cannot be wrapped at all", loc)
        return
    except (_PathEval.Unknown, TypeError, KeyError, IndexError, AttributeError) as ex:
        rep.add(rid, "routines evaluated on sample declarations", True, f"not evaluable ({ex}); M3/M4/M7 decide by structure", loc, nontrivial=False)
        return
    rep.units["routines_evaluated"] = len(routines)
    probs = []
    handle_probs = []
    for fid, text in sorted(routines.items()):
        ent = wm[fid]
        objs = [x for x in ent if isinstance(x, dict) and "args" in x and "name" in x]
        if not objs and any(x in ("collectorInsertAndMakeBase", "upcastFromVoid", "deconstructor") for x in ent if isinstance(x, str)):
            continue                                 # the routines around a constructor that belong to the class, not to an overload (I9, I3/I4)
        if not objs or not isinstance(text, str):
            probs.append(f"id {fid}: no routine text / no overload registered")
            continue
        ov = objs[-1]
        kind = ov.get("__kind__", "")
        is_method = kind.endswith("Method") and "Static" not in kind
        is_ctor = kind == "Constructor"
        supplied = [a["name"] for a in ov["args"]["args_list"]]
        full = ov["args"].get("backup") or ov["args"]
        full_list = full["args_list"]
        label = f"{ov['name']}({', '.join(supplied)})"
        head = re.search(r"void\s+(\w+)\s*\(", text)
        if not head or not head.group(1).endswith(f"_{fid}"):
            probs.append(f"id {fid} [{label}]: the routine is called {head.group(1) if head else '?'}")
        chk = re.search(r'checkArguments\("[^"]*"\s*,\s*nargout\s*,\s*nargin(\s*-\s*1)?\s*,\s*(\d+)\)', text)
        if not chk and is_ctor:
            pass                                     # the .m constructor picks the routine by `nargin`; the routines of constructors carry no check of their own
        elif not chk:
            probs.append(f"id {fid} [{label}]: no checkArguments")
        else:
            if int(chk.group(2)) != len(supplied):
                probs.append(f"id {fid} [{label}]: checks for {chk.group(2)} argument(s), the overload takes {len(supplied)}")
            if bool(chk.group(1)) != is_method:
                probs.append(f"id {fid} [{label}]: argument count taken {'behind' if chk.group(1) else 'without'} a receiver")
        got_in = {nm: int(k) for nm, k in re.findall(r"(\w+)\s*=\s*\*?\s*unwrap\w*\s*<[^;]*?>\s*\(\s*in\[(\d+)\]", text) if nm != "obj"}
        # a parameter that MATLAB passes as a built-in array (char, double ...) is converted from the array, not looked up as an object handle
        for a_ in ov["args"]["args_list"]:
            if a_["ctype"]["typename"]["name"] in ("string", "double", "size_t", "int", "bool", "char"):
                how_ = re.search(r"(?<!\w)" + re.escape(a_["name"]) + r"\s*=\s*\*?\s*(unwrap\w*)\s*<", text)
                if how_ and how_.group(1) != "unwrap":
                    handle_probs.append((fid, label, a_["name"], a_["ctype"]["typename"]["name"], how_.group(1)))
        for k, nm in enumerate(supplied):
            want_k = k + (1 if is_method else 0)
            if got_in.get(nm) != want_k:
                probs.append(f"id {fid} [{label}]: parameter {nm} is read from in[{got_in.get(nm)}], it is passed as in[{want_k}]")
        callee_pat = (r"obj\s*->\s*" if is_method else r"new\s+[\w:]*::" if is_ctor else r"[\w:]*::") + re.escape(ov["name"]) + r"\s*\("
        cm = re.search(callee_pat, text)
        if not cm:
            probs.append(f"id {fid} [{label}]: no call of the declared {'method on the receiver' if is_method else 'entity'}")
            continue
        args = _balanced_args(text, cm.end() - 1)
        want_args = [(a["name"] if a["name"] in supplied else a["default"]) for a in full_list]
        norm = [x.lstrip("*").strip() if x.lstrip("*").strip() in supplied else x for x in (args or [])]
        if args is None or norm != want_args:
            probs.append(f"id {fid} [{label}]: calls with ({', '.join(args or [])}), declared order with the omitted defaults is ({', '.join(str(w) for w in want_args)})")
        if is_ctor:
            continue
        void = ov["return_type"]["is_void"]() if callable(ov["return_type"].get("is_void")) else False
        if not void and "out[0]" not in text:
            probs.append(f"id {fid} [{label}]: the result is not handed back")
    if conversions:
        rep.add(rid, "routines:a parameter MATLAB passes as a built-in array is converted from the array", not handle_probs,
                f"{[f'{lab_}: `{n_}` ({t_}) goes through {h_}' for _, lab_, n_, t_, h_ in handle_probs][:3]}: the .m guard admits a char / numeric array for this parameter, "
                f"the routine looks the `ptr_...` property of an object handle up on it - the call cannot succeed", loc)
    rep.add(rid, "routines:each one checks, unwraps and calls for the overload its id is registered for", not probs,
            f"{probs[:3]}: the gateway reaches the right case but the routine reads other inputs or calls the entity with other arguments than the overload declares",
            loc)


def rule_property_accessors_by_evaluation(ctx, rep: Report, rid="I12", parts=("sites", "routines")):
    """The accessors of class properties: `get.NAME` / `set.NAME` in the .m file pass the ids registered for the getter and the
    setter of that very property; the getter routine takes the receiver alone and hands `obj->NAME` back, the setter routine
    takes one value, unwraps it from `in[1]` and assigns a value of the member's type - the value itself for a basic or
    shared-pointer member, the dereferenced holder (`*NAME`) for a class held by value.  Decided by running
    wrap_class_properties and then generate_collector_function (the analyser's own interpreter) on a sample class with a
    double, a by-value class and a shared-pointer property."""
    from .rules_matlab import SampleObj, _PathEval, _Raised, mini_exec, program_classes
    ci, prog = mw(ctx)
    methods = _all_methods(prog, ci)
    classes = program_classes(prog, ["ArgumentList", "Argument", "MatlabWrapper", "Typename", "Type", "ReturnType"])
    me, cls, statics, meths, funcs = _emitter_samples(ctx)

    def ty(name, ns=(), sp=""):
        return SampleObj(__kind__="Type", typename=SampleObj(__kind__="Typename", name=name, namespaces=list(ns), instantiations=[]),
                         is_const="", is_ref="", is_ptr="", is_shared_ptr=sp, is_basic=name in ("double", "int"))
    props = [("value", ty("double"), "basic"), ("held", ty("K", ("ns",)), "object held by value"), ("linked", ty("K", ("ns",), sp="*"), "shared pointer")]
    cls["properties"] = [SampleObj(__kind__="Variable", name=n, ctype=t, default=None, parent=cls) for n, t, _ in props]
    wp = prog.method("MatlabWrapper", "wrap_class_properties")
    gc = prog.method("MatlabWrapper", "generate_collector_function")
    loc = f"{ci.mod.rel}:{wp.lineno}"
    try:
        texts = mini_exec(wp, dict(zip(func_params(wp), [me, "ns", cls])), budget=120000, methods=methods, classes=classes)
        wm = me.get("wrapper_map")
        text = "".join(texts) if isinstance(texts, list) else texts
        if not isinstance(text, str) or not isinstance(wm, dict) or len(wm) != 2 * len(props):
            raise _PathEval.Unknown("accessor text / id map of the sample run")
        routines = {fid: mini_exec(gc, {func_params(gc)[0]: me, func_params(gc)[1]: fid}, budget=200000, methods=methods, classes=classes) for fid in sorted(wm)}
    except (_PathEval.Unknown, _Raised, TypeError, KeyError, IndexError, AttributeError) as ex:
        rep.add(rid, "property accessors evaluated on a sample class", True, f"not evaluable ({ex}); I6 decides by structure", loc, nontrivial=False)
        return
    rep.units["property_routines_evaluated"] = len(routines)

    def routine_of(fid):
        return next((x for x in wm[fid] if isinstance(x, str) and re.search(r"_(get|set)_\w+_\d+$", x)), "")
    if "sites" in parts:
        probs = []
        for m_ in re.finditer(r"function\s+(?:varargout\s*=\s*)?(get|set)\.(\w+)\((.*?)\)(.*?)\bend\b", text, re.S):
            role, name, _params, body = m_.groups()
            ids = [int(x) for x in re.findall(r"\b\w+_wrapper\((\d+)\s*,", body)]
            if len(ids) != 1 or ids[0] not in wm:
                probs.append(f"{role}.{name}: passes id(s) {ids}")
                continue
            rn = routine_of(ids[0])
            if f"_{role}_{name}_" not in rn:
                probs.append(f"{role}.{name}: passes id {ids[0]}, registered as {rn}")
        if len(re.findall(r"function\s+(?:varargout\s*=\s*)?(?:get|set)\.", text)) != 2 * len(props):
            probs.append("not one getter and one setter per property")
        rep.add(rid, "property accessors:get.NAME / set.NAME pass the ids of their own getter / setter routine", not probs, f"{probs[:3]}", loc)
    if "routines" in parts:
        for n, t, kind in props:
            for role in ("get", "set"):
                fid = next((f_ for f_ in wm if f"_{role}_{n}_" in routine_of(f_)), None)
                r = routines.get(fid, "") if fid is not None else ""
                probs = []
                chk = re.search(r'checkArguments\("[^"]*"\s*,\s*nargout\s*,\s*nargin\s*-\s*1\s*,\s*(\d+)\)', r or "")
                if not chk or int(chk.group(1)) != (0 if role == "get" else 1):
                    probs.append(f"argument count {chk.group(1) if chk else 'not checked'}")
                if role == "get":
                    if not re.search(r"out\[0\]\s*=.*obj->" + re.escape(n) + r"\b", r or ""):
                        probs.append("does not hand obj->" + n + " back")
                else:
                    if not re.search(re.escape(n) + r"\s*=\s*unwrap\w*\s*<[^;]*>\s*\(\s*in\[1\]", r or ""):
                        probs.append("the value is not unwrapped from in[1]")
                    asg = re.search(r"obj->" + re.escape(n) + r"\s*=\s*(\*?)\s*" + re.escape(n) + r"\s*;", r or "")
                    if not asg:
                        probs.append("no assignment to obj->" + n)
                    elif bool(asg.group(1)) != (kind == "object held by value"):
                        probs.append(f"assigns `{asg.group(1)}{n}`: " + ("the member is a std::shared_ptr, the dereferenced object is not" if kind == "shared pointer"
                                                                        else "the member's own type is needed"))
                rep.add(rid, f"property routines:{role}ter of a {kind} property", not probs,
                        f"{probs}: for `{'ns::K* ' if kind == 'shared pointer' else ('ns::K ' if 'value' in kind else 'double ')}{n};` the routine is\n{(r or '').strip()[:300]}",
                        f"{ci.mod.rel}:{gc.lineno}")


# ------------------------------------------------------------------------------------------ I13 the class file carries the class's name
def _int_constants_near(prog, ci, fns) -> List[int]:
    """Integer constants a name-shaping function may cut or pad at: literals in the given functions and the integer class
    attributes of the wrapper and its mixins."""
    out = set()
    for fn in fns:
        for n in ast.walk(fn):
            if isinstance(n, ast.Constant) and isinstance(n.value, int) and not isinstance(n.value, bool) and 2 < n.value <= 4096:
                out.add(n.value)
    for c in prog.mro(ci):
        for a, v in c.attrs.items():
            if isinstance(v, ast.Constant) and isinstance(v.value, int) and not isinstance(v.value, bool) and 2 < v.value <= 4096:
                out.add(v.value)
    return sorted(out)


def rule_class_file_named_after_the_class(ctx, rep: Report, rid="I13"):
    """The `.m` file of a class and its `classdef` line carry the class's own (instantiated) name, whatever its length: every
    other generated text - `isa` guards, constructors called for returned objects, base-class lists, the package directory of
    the class's enums - names the class in full, and two classes must not share a file (the second would overwrite the first,
    whose ids then keep their cases and routines but lose every call site).  Decided by evaluating, on the backward slice of
    wrap_instantiated_class, the file name it returns and the name it puts after `classdef`, for sample classes with and
    without constructors and names of every length around the integer constants the wrapper mentions."""
    from .rules_matlab import SampleObj, _PathEval, _Raised, slice_eval
    ci, prog = mw(ctx)
    fn = prog.method("MatlabWrapper", "wrap_instantiated_class")
    methods = _all_methods(prog, ci)
    loc = f"{ci.mod.rel}:{fn.lineno}"
    rets = [r for r in walk_no_nested(fn) if isinstance(r, ast.Return) and isinstance(r.value, ast.Tuple) and len(r.value.elts) == 2]
    cdef = None
    for c in walk_no_nested(fn):
        if isinstance(c, ast.Call) and isinstance(c.func, ast.Attribute) and c.func.attr == "format" and isinstance(c.func.value, ast.Constant) \
                and isinstance(c.func.value.value, str) and c.func.value.value.lstrip().startswith("classdef"):
            cdef = c
    if not rets or cdef is None:
        raise AnalysisError(f"{rep.prop}/{rid}: the returned (file name, text) pair or the classdef line of wrap_instantiated_class not found")
    name_arg = next((k.value for k in cdef.keywords if k.arg == "class_name"), cdef.args[0] if cdef.args else None)
    if name_arg is None:
        raise AnalysisError(f"{rep.prop}/{rid}: the classdef line does not take the class name as `class_name`")
    helpers = [f_ for n_, f_ in methods.items() if n_ in {c.func.attr for c in ast.walk(fn) if isinstance(c, ast.Call) and isinstance(c.func, ast.Attribute)
                                                          and unparse(c.func.value) == "self"} and n_.startswith("_")]
    lengths = {4, 40, 300}
    for c in _int_constants_near(prog, ci, [fn] + helpers):
        lengths |= {c - 1, c, c + 1, c + 17}
    me, cls0, *_ = _emitter_samples(ctx)
    me.setdefault("ignore_classes", [])
    me.setdefault("content", [])
    probs, ran = [], 0
    try:
        for ln in sorted(x for x in lengths if x > 0):
            for with_ctor in (False, True):
                name = ("SmartFactorWithAVeryLongName" * 200)[:ln - 1] + "Z"
                cls = SampleObj(cls0)
                cls["name"] = name
                cls["ctors"] = [SampleObj(__kind__="Constructor", name=name, args=SampleObj(__kind__="ArgumentList", args_list=[], parent=None), parent=cls)] \
                    if with_ctor else []
                ps = func_params(fn)
                env = dict(zip(ps, [me, cls, "ns."]))
                got_file = slice_eval(fn, rets[-1].value.elts[0], env, methods=methods, budget=20000)
                got_name = slice_eval(fn, name_arg, env, methods=methods, budget=20000)
                ran += 1
                what = f"a class with a name of {ln} characters" + (" and a constructor" if with_ctor else "")
                if got_file != name + ".m":
                    probs.append(f"{what} is written to a file named with {len(str(got_file)) - 2} characters")
                if got_name != name:
                    probs.append(f"{what} is declared as a classdef named with {len(str(got_name))} characters")
    except (_PathEval.Unknown, _Raised, TypeError, KeyError, IndexError) as e:
        # nothing else decides this obligation: an emitter the interpreter cannot follow is reported as such, not passed over
        raise AnalysisError(f"{rep.prop}/{rid}: wrap_instantiated_class could not be evaluated for the class name ({str(e)[:80]})")
    rep.units["class_file_names_evaluated"] = ran
    rep.add(rid, "the class file and the classdef carry the class's name", not probs,
            f"{sorted(set(probs), key=probs.index)[:3]}: the rest of the toolbox names the class in full (guards, constructors of returned objects, base lists), and two "
            f"classes whose names agree in the part kept share one file - the ids of the one overwritten keep their cases and routines and lose "
            f"every call site", loc)


# ------------------------------------------------------------------------------------------ T20 / T21 the preamble and the class registry by evaluation
def _with_templates(ctx, env: dict) -> dict:
    """env plus the text templates of WrapperTemplate (class-level constants the emitters read by name)."""
    ci, prog = mw(ctx)
    wt = ctx._get("wrapper_template_constants", lambda: _class_constants(prog, "WrapperTemplate"))
    out = dict(env)
    out.setdefault("WrapperTemplate", wt)
    return out


def _class_constants(prog, cname: str):
    """The class-level constants of a program class (the text templates of WrapperTemplate) as a sample object: each attribute's
    defining expression evaluated by the interpreter."""
    from .rules_matlab import SampleObj, _PathEval, _Raised, mini_exec
    tci = prog.cls(cname)
    out = SampleObj(__kind__=cname)
    for a, v in tci.attrs.items():
        fn = ast.parse("def f():\n    return 0").body[0]
        fn.body[0].value = v
        try:
            out[a] = mini_exec(fn, {}, budget=4000)
        except (_PathEval.Unknown, _Raised, TypeError, KeyError, IndexError, ValueError):
            pass
    return out


def _preamble_samples(ctx):
    from .rules_matlab import SampleObj
    me, *_ = _emitter_samples(ctx)
    root = SampleObj(__kind__="Namespace", name="", parent="")
    nsn = SampleObj(__kind__="Namespace", name="ns", parent=root, full_namespaces=lambda: ["", "ns"])

    def K(name, virt, insts=None, cpp=None, serial=False):
        c = SampleObj(__kind__="InstantiatedClass", name=name, parent=nsn, namespaces=lambda: ["", "ns"], is_virtual=virt, instantiations=insts or [],
                      to_cpp=(lambda: cpp or "ns::" + name), static_methods=[], properties=[], ctors=[], parent_class="", enums=[], operators=[],
                      methods=[SampleObj(__kind__="Method", name="serialize")] if serial else [SampleObj(__kind__="Method", name="size")])
        c["original"] = SampleObj(__kind__="Class", name=name, namespaces=lambda: ["", "ns"])
        return c
    dbl = SampleObj(__kind__="Typename", name="double", namespaces=[], instantiations=[])
    classes = [K("A", True, serial=True), K("Ign", False), K("B", True), K("C", False, serial=True), K("TD", True, insts=[dbl], cpp="ns::T<double>"),
               K("Mid", True), K("TE", False, insts=[dbl], cpp="ns::U<double>", serial=True), K("Last", True)]
    return me, classes, ["ns::Ign", "ns::Mid", "ns::Last"]


def preamble_verdict(ctx):
    """{serialization on/off: list of differences} from running generate_preamble on the eight sample classes; a mode is missing
    where the interpreter could not follow."""
    return ctx._get("preamble_verdict", lambda: _preamble_verdict(ctx))


def _preamble_verdict(ctx):
    from .rules_matlab import _PathEval, _Raised, mini_exec
    ci, prog = mw(ctx)
    fn = prog.method("MatlabWrapper", "generate_preamble")
    methods = _all_methods(prog, ci)
    wt = _class_constants(prog, "WrapperTemplate")
    out = {}
    for boost in (False, True):
        me, classes, ignored = _preamble_samples(ctx)
        me["classes"], me["ignore_classes"], me["use_boost_serialization"] = classes, ignored, boost
        try:
            r = mini_exec(fn, {"self": me, "WrapperTemplate": wt}, budget=300000, methods=methods)
        except (_PathEval.Unknown, _Raised, TypeError, KeyError, IndexError):
            continue
        if not (isinstance(r, list) and len(r) == 5 and all(isinstance(x, str) for x in r)):
            continue
        typedefs, guids, collectors, delete_all, rtti = r
        probs = []
        for c in classes:
            nm = c["name"]
            full = "ns" + nm
            sep = nm if c["instantiations"] else c["to_cpp"]()
            is_ign = "ns::" + nm in ignored
            want = 0 if is_ign else 1
            n_decl = len(re.findall(r"typedef\s+std::set<\s*std::shared_ptr<\s*" + re.escape(sep) + r"\s*>\s*\*\s*>\s+Collector_" + full + r"\s*;", collectors))
            n_obj = len(re.findall(r"static\s+Collector_" + full + r"\s+collector_" + full + r"\s*;", collectors))
            n_free = len(re.findall(r"for\s*\(\s*Collector_" + full + r"::iterator\s+iter\s*=\s*collector_" + full + r"\.begin\(\)", delete_all))
            n_rtti = len(re.findall(r"typeid\(\s*" + re.escape(sep) + r"\s*\)\.name\(\)\s*,\s*\"" + full + r"\"", rtti))
            n_any_rtti = len(re.findall(r"\"" + full + r"\"", rtti))
            n_td = len(re.findall(r"typedef\s+" + re.escape(c["to_cpp"]()) + r"\s+" + nm + r"\s*;", typedefs))
            what = f"{'ignored ' if is_ign else ''}{'virtual ' if c['is_virtual'] else ''}class {nm}"
            if (n_decl, n_obj) != (want, want):
                probs.append(f"{what}: collector type declared {n_decl} time(s), object {n_obj} (expected {want})")
            if n_free != want:
                probs.append(f"{what}: freed at unload {n_free} time(s) (expected {want})")
            want_rtti = 1 if (c["is_virtual"] and not is_ign) else 0
            if n_rtti != want_rtti or n_any_rtti != want_rtti:
                probs.append(f"{what}: registered for RTTI {n_any_rtti} time(s), {n_rtti} of them under its own C++ type (expected {want_rtti})")
            want_td = 1 if (c["instantiations"] and not is_ign) else 0
            if n_td != want_td:
                probs.append(f"{what}: typedef of the instantiation declared {n_td} time(s) (expected {want_td})")
            if boost:
                has = any(m_["name"] == "serialize" for m_ in c["methods"])
                n_g = len(re.findall(r"BOOST_CLASS_EXPORT_GUID\(\s*" + re.escape(sep) + r"\s*,\s*\"" + full + r"\"\s*\)", guids))
                if n_g != (1 if has and not is_ign else 0):
                    probs.append(f"{what}: exported for serialization {n_g} time(s) (expected {1 if has and not is_ign else 0})")
            elif guids.strip():
                probs.append("serialization exports emitted although serialization is off")
        out[boost] = probs
    return out


def rule_preamble_by_evaluation(ctx, rep: Report, rid="T20"):
    """The preamble of the MEX file declares one collector per wrapped class, frees each of them once in _deleteAllObjects,
    registers exactly the virtual ones for RTTI under their own two names, declares the typedef of every typedef'd instantiation,
    and does none of this for an ignored class - wherever in the list the ignored classes stand.  Decided by running
    generate_preamble (the analyser's own interpreter) on a sample wrapper holding eight classes (virtual and plain, typedef'd
    instantiations, ignored ones first, in the middle and last), with and without serialization, and reading the five texts."""
    ci, prog = mw(ctx)
    fn = prog.method("MatlabWrapper", "generate_preamble")
    loc = f"{ci.mod.rel}:{fn.lineno}"
    v = preamble_verdict(ctx)
    for boost, probs in sorted(v.items()):
        rep.add(rid, f"preamble:{'with' if boost else 'without'} serialization:one collector, one clean-up block, RTTI entry iff virtual, nothing for an ignored class", not probs,
                f"run on eight sample classes: {probs[:3]}: a routine then uses a collector that is not declared (the module does not build), objects survive "
                f"the unload, or a virtual object comes back to MATLAB as its base class", loc)
    rep.units["preamble_runs_evaluated"] = len(v)
    if not v:
        rep.add(rid, "preamble evaluated on sample classes", True, "not evaluable; T1 decides by structure", loc, nontrivial=False)


def rule_registry_keeps_every_class(ctx, rep: Report, rid="T21"):
    """The wrapper's class registry (add_class, walked by generate_preamble) keeps every class it is given once: two different
    declarations never collapse into one entry - not two typedefs of the same template instantiation (same C++ type, two MATLAB
    classes), not two classes of the same name in different namespaces - and a class added twice is kept once.  Decided by
    running add_class on sample classes; should the declaration classes define their own `__eq__`, by running that on the pairs
    as well (a dictionary keyed by the class object follows it)."""
    from .rules_matlab import SampleObj, _PathEval, _Raised, mini_exec, program_classes
    ci, prog = mw(ctx)
    fn = prog.method("MatlabWrapper", "add_class")
    loc = f"{ci.mod.rel}:{fn.lineno}"
    methods = _all_methods(prog, ci)
    ps = func_params(fn)
    root = SampleObj(__kind__="Namespace", name="", parent="")

    def ns(name):
        return SampleObj(__kind__="Namespace", name=name, parent=root, full_namespaces=lambda: ["", name])

    def K(name, nsname, cpp):
        n_ = ns(nsname)
        return SampleObj(__kind__="InstantiatedClass", __bases__=["Class"], name=name, parent=n_, namespaces=lambda: ["", nsname], to_cpp=lambda: cpp,
                         instantiations=[], is_virtual=False, template="", parent_class="", ctors=[], methods=[], static_methods=[], properties=[],
                         operators=[], enums=[])
    a, b, c, d = K("BoxD", "geo", "geo::Box<double>"), K("Scalar", "geo", "geo::Box<double>"), K("BoxD", "other", "other::BoxD"), K("Pt", "geo", "geo::Pt")
    label = "registry:every distinct class is kept, a class added twice is kept once"
    me = SampleObj(__kind__="MatlabWrapper", classes=[], classes_elems={})
    try:
        for x in (a, b, c, a, d):
            mini_exec(fn, dict(zip(ps, [me, x])), budget=4000, methods=methods)
    except (_PathEval.Unknown, _Raised, TypeError, KeyError, IndexError) as e:
        raise AnalysisError(f"{rep.prop}/{rid}: add_class could not be evaluated ({str(e)[:60]})")
    got = me.get("classes")
    names = [f"{x['parent']['name']}::{x['name']}" for x in got] if isinstance(got, list) and all(isinstance(x, dict) for x in got) else got
    ok = isinstance(got, list) and len(got) == 4 and all(x is y for x, y in zip(got, (a, b, c, d)))
    detail = f"adding geo::BoxD, geo::Scalar (the same instantiation under another name), other::BoxD, geo::BoxD again, geo::Pt leaves {names}"
    # a dictionary or set keyed by the class objects follows their own notion of equality, if they have one
    eqs = []
    for cname in ("InstantiatedClass", "Class"):
        try:
            kc = prog.cls(cname)
        except Exception:
            continue
        for c_ in prog.mro(kc):
            if "__eq__" in c_.methods and c_.methods["__eq__"] not in [e_[1] for e_ in eqs]:
                eqs.append((c_.qual, c_.methods["__eq__"]))
    for qual, eq in eqs:
        classes = program_classes(prog, ["InstantiatedClass", "Class"])
        for x, y, what in ((a, b, "two typedefs of one instantiation"), (a, c, "two classes of one name in different namespaces")):
            try:
                r = mini_exec(eq, dict(zip(func_params(eq), [x, y])), budget=4000, classes=classes, methods=_all_methods(prog, prog.cls("InstantiatedClass")))
            except (_PathEval.Unknown, _Raised, TypeError, KeyError, IndexError):
                continue
            if r is True:
                ok = False
                detail += f"; {qual}.__eq__ calls {what} equal, and add_class keys its dictionary by the class object"
    rep.add(rid, label, ok, f"{detail}: a class dropped from the registry keeps its classdef and routines but loses its collector, its clean-up block and its RTTI "
            f"entry - the module does not build, or leaks", loc)


# ------------------------------------------------------------------------------------------ M20 a returned enum is wrapped as the declared enum
def rule_returned_enum_by_evaluation(ctx, rep: Report, rid="M20"):
    """A method that returns an enum hands it to MATLAB as the MATLAB class of the *declared* enum: `ns.K.Mode` for an enum of the
    class (written unqualified inside the class, or qualified with the class), `ns.Mode` for the enum of the enclosing namespace -
    also when class and namespace each declare an enum of that name.  Decided by running _collector_return (the analyser's own
    interpreter; the enum predicates are the program's own) on sample classes."""
    from .rules_matlab import SampleObj, _PathEval, _Raised, mini_exec
    ci, prog = mw(ctx)
    fn = prog.method("MatlabWrapper", "_collector_return")
    methods = _all_methods(prog, ci)
    loc = f"{ci.mod.rel}:{fn.lineno}"
    ps = func_params(fn)
    me, *_ = _emitter_samples(ctx)

    def world(ns_enums, cls_enums, nsname="ns"):
        root = SampleObj(__kind__="Namespace", name="", parent="", full_namespaces=lambda: [""])
        if nsname:
            nsn = SampleObj(__kind__="Namespace", name=nsname, parent=root, full_namespaces=lambda: ["", nsname])
        else:
            nsn = root
        nsn["content"] = [SampleObj(__kind__="Enum", name=n, parent=nsn) for n in ns_enums]
        cls = SampleObj(__kind__="InstantiatedClass", __bases__=["Class"], name="K", parent=nsn, namespaces=lambda: ["", nsname] if nsname else [""],
                        to_cpp=lambda: (nsname + "::K") if nsname else "K", instantiations=[], is_virtual=False, parent_class="", ctors=[], methods=[],
                        static_methods=[], properties=[], operators=[], template="")
        cls["enums"] = [SampleObj(__kind__="Enum", name=n, parent=cls) for n in cls_enums]
        nsn["content"].append(cls)
        return cls

    def ty(name, ns):
        return SampleObj(__kind__="Type", typename=SampleObj(__kind__="Typename", name=name, namespaces=list(ns), instantiations=[]),
                         is_const="", is_ref="", is_ptr="", is_shared_ptr="", is_basic=False)
    cases = [
        ("an enum of the class, written unqualified", world(["Level"], ["Mode"]), ty("Mode", []), "ns.K.Mode"),
        ("an enum of the class, written ns::K::Mode", world(["Level"], ["Mode"]), ty("Mode", ["ns", "K"]), "ns.K.Mode"),
        ("the enum of the namespace, written ns::Level", world(["Level"], ["Mode"]), ty("Level", ["ns"]), "ns.Level"),
        ("the enum of the namespace, written unqualified", world(["Level"], ["Mode"]), ty("Level", []), "ns.Level"),
        ("the class's enum where the namespace has one of the same name, written unqualified", world(["Mode"], ["Mode"]), ty("Mode", []), "ns.K.Mode"),
        ("the class's enum where the namespace has one of the same name, written ns::K::Mode", world(["Mode"], ["Mode"]), ty("Mode", ["ns", "K"]), "ns.K.Mode"),
        ("the namespace's enum where the class has one of the same name, written ns::Mode", world(["Mode"], ["Mode"]), ty("Mode", ["ns"]), "ns.Mode"),
        ("an enum of a class at global scope", world([], ["Mode"], nsname=""), ty("Mode", []), "K.Mode"),
    ]
    probs, ran = [], 0
    for what, cls, t, want in cases:
        try:
            text = mini_exec(fn, dict(zip(ps, [me, "obj->f()", t, cls])), budget=40000, methods=methods)
        except (_PathEval.Unknown, _Raised, TypeError, KeyError, IndexError) as e:
            continue
        if not isinstance(text, str):
            continue
        ran += 1
        m_ = re.search(r'wrap_enum\(\s*obj->f\(\)\s*,\s*"([^"]*)"\s*\)', text)
        if not m_:
            probs.append(f"{what}: not handed back with wrap_enum ({text.strip()[:60]})")
        elif m_.group(1) != want:
            probs.append(f"{what}: wrapped as '{m_.group(1)}', the declared enum is {want}")
    rep.units["returned_enum_cases_evaluated"] = ran
    if ran == 0:
        raise AnalysisError(f"{rep.prop}/{rid}: _collector_return could not be evaluated on any sample")
    if ran < len(cases):
        rep.add(rid, "returned enums:by evaluation", True, f"{ran} of {len(cases)} cases evaluable", loc, nontrivial=False)
    if ran:
        rep.add(rid, "returned enums:wrapped as the MATLAB class of the declared enum", not probs,
                f"{probs[:3]}: MATLAB receives an object of another enumeration class (or of none that exists) than the one the interface declares",
                loc)


# ------------------------------------------------------------------------------------------ the base-class handle by evaluation (H4)
def base_handle_verdict(ctx):
    """The routines behind a class's constructors run (the analyser's own interpreter) for sample classes with and without a base:
    with a base the collectorInsertAndMakeBase routine hands `new SharedBase(*self)` to MATLAB in out[0] and every constructor
    routine in out[1], `SharedBase` being the shared pointer to the *base*; without a base neither allocates one.  Returns the
    list of differences, or None where the emitters cannot be followed."""
    def mk():
        from .rules_matlab import SampleObj, _PathEval, _Raised, mini_exec, program_classes
        ci, prog = mw(ctx)
        methods = _all_methods(prog, ci)
        classes = program_classes(prog, ["ArgumentList", "Argument", "MatlabWrapper", "Typename", "Type", "ReturnType"])
        wcc = prog.method("MatlabWrapper", "wrap_class_constructors")
        gc = prog.method("MatlabWrapper", "generate_collector_function")
        ps = func_params(wcc)
        if len(ps) != 6 or len(func_params(gc)) != 2:
            return None
        probs, ran = [], 0
        for virt in (False, True):
            for par in (False, True):
                me, cls, *_ = _emitter_samples(ctx)
                base = SampleObj(__kind__="Typename", name="Base", namespaces=["ns"], instantiations=[])
                cls["is_virtual"] = virt
                cls["parent_class"] = base if par else ""
                try:
                    text = mini_exec(wcc, _with_templates(ctx, dict(zip(ps, [me, "ns", cls, base if par else "", list(cls["ctors"]), virt]))), budget=200000, methods=methods, classes=classes)
                    wm = me.get("wrapper_map")
                    if not isinstance(text, str) or not isinstance(wm, dict):
                        return None
                    label = f"{'virtual' if virt else 'plain'} class {'with' if par else 'without'} a base"
                    for fid in sorted(wm):
                        role = next((x for x in wm[fid] if isinstance(x, str) and x in ("collectorInsertAndMakeBase", "constructor")), None)
                        if role is None:
                            continue
                        r = mini_exec(gc, _with_templates(ctx, {func_params(gc)[0]: me, func_params(gc)[1]: fid}), budget=200000, methods=methods, classes=classes)
                        if not isinstance(r, str):
                            return None
                        ran += 1
                        flat = re.sub(r"\s+", "", r)
                        k = "0" if role == "collectorInsertAndMakeBase" else "1"
                        news = flat.count("newSharedBase(")
                        if par:
                            ok = (news == 1 and "typedefstd::shared_ptr<ns::Base>SharedBase;" in flat
                                  and f"out[{k}]=mxCreateNumericMatrix(1,1,mxUINT32OR64_CLASS,mxREAL);" in flat
                                  and f"*reinterpret_cast<SharedBase**>(mxGetData(out[{k}]))=newSharedBase(*self);" in flat)
                            if not ok:
                                probs.append(f"{label}: the {role} routine (id {fid}) does not hand `new SharedBase(*self)` - a shared pointer to ns::Base - to MATLAB in out[{k}]")
                        elif news or "SharedBase" in flat:
                            probs.append(f"{label}: the {role} routine (id {fid}) allocates a base handle nobody receives")
                except (_PathEval.Unknown, _Raised, TypeError, KeyError, IndexError, AttributeError):
                    return None
        # the .m side and the routines ask the same question: a class whose base is on the ignore list - the parent handed to the
        # .m constructor emitter by wrap_instantiated_class decides `base_ptr = ...`, the routines look at the class itself
        try:
            from .rules_matlab import slice_eval
            wic = prog.method("MatlabWrapper", "wrap_instantiated_class")
            site = next((c for c in walk_no_nested(wic) if isinstance(c, ast.Call) and unparse(c.func) == "self.wrap_class_constructors"), None)
            me, cls, *_ = _emitter_samples(ctx)
            base = SampleObj(__kind__="Typename", name="Base", namespaces=["ns"], instantiations=[], qualified_name=lambda: "ns::Base", to_cpp=lambda: "ns::Base")
            cls["parent_class"] = base
            me["ignore_classes"] = ["ns::Base"]
            me.setdefault("content", [])
            bound = {}
            if site is not None:
                for p_, a_ in zip(ps[1:], site.args):
                    bound[p_] = a_
                for k_ in site.keywords:
                    if k_.arg:
                        bound[k_.arg] = k_.value
            if ps[3] in bound:
                wps = func_params(wic)
                pname = slice_eval(wic, bound[ps[3]], dict(zip(wps, [me, cls, "ns."])), methods=methods, classes=classes, budget=60000)
                text = mini_exec(wcc, _with_templates(ctx, dict(zip(ps, [me, "ns", cls, pname, list(cls["ctors"])[:2], False]))), budget=200000, methods=methods, classes=classes)
                wm = me.get("wrapper_map")
                captures = isinstance(text, str) and "base_ptr" in text
                allocs = []
                for fid in sorted(wm):
                    if any(x in ("collectorInsertAndMakeBase", "constructor") for x in wm[fid] if isinstance(x, str)):
                        r = mini_exec(gc, _with_templates(ctx, {func_params(gc)[0]: me, func_params(gc)[1]: fid}), budget=200000, methods=methods, classes=classes)
                        allocs.append(isinstance(r, str) and "new SharedBase" in r)
                if allocs:
                    ran += 100
                    if any(a_ != captures for a_ in allocs):
                        probs.append(f"a class whose base is on the ignore list: the .m constructor {'captures' if captures else 'does not capture'} the base handle, "
                                     f"{sum(allocs)} of {len(allocs)} routines allocate one")
        except (_PathEval.Unknown, _Raised, TypeError, KeyError, IndexError, AttributeError, StopIteration):
            pass
        return probs if ran >= 108 else None
    return ctx._get("base_handle_verdict", mk)



# ------------------------------------------------------------------------------------------ I14 the dispatch table by evaluation
def dispatch_table_verdict(ctx):
    """mex_function run (the analyser's own interpreter) on the id map that running the .m emitters on the sample declarations
    left behind - a virtual class (its reserved id included), methods, static methods, constructors and free functions, among
    them names in which an underscore is followed by a digit (`step_2`, `norm_2`): the case labels are 0..n-1, each once; every
    case runs the routine whose name ends in that very id (the .m files pass the id the routine is named with); every routine
    registered in the map is run by exactly one case.  Returns the differences, or None where the interpreter cannot follow."""
    def mk():
        from .rules_matlab import _PathEval, _Raised, mini_exec, program_classes
        ci, prog = mw(ctx)
        methods = _all_methods(prog, ci)
        classes = program_classes(prog, ["ArgumentList", "Argument", "MatlabWrapper", "Typename", "Type", "ReturnType"])
        me, cls, statics, meths, funcs = _emitter_samples(ctx)
        cls["is_virtual"] = True
        me["wrapper_id"] = 0
        try:
            gm = prog.method("MatlabWrapper", "_group_methods")
            groups = mini_exec(gm, dict(zip(func_params(gm), [me, list(funcs)])), budget=60000, methods=methods, classes=classes)
            for which, argv in [("wrap_class_constructors", [me, "ns", cls, "", list(cls["ctors"]), True]), ("wrap_static_methods", [me, "ns", cls, [False]]),
                                ("wrap_class_methods", [me, "ns", cls, list(meths), [False]])] + [("wrap_global_function", [me, g_]) for g_ in groups]:
                fn = prog.method("MatlabWrapper", which)
                ps = func_params(fn)
                if len(ps) != len(argv):
                    return None
                mini_exec(fn, _with_templates(ctx, dict(zip(ps, argv))), budget=150000, methods=methods, classes=classes)
            wm = me.get("wrapper_map")
            n_ids = me.get("wrapper_id")
            mf = prog.method("MatlabWrapper", "mex_function")
            text = mini_exec(mf, _with_templates(ctx, {func_params(mf)[0]: me}), budget=300000, methods=methods, classes=classes)
        except (_PathEval.Unknown, _Raised, TypeError, KeyError, IndexError, AttributeError, ValueError):
            return None
        if not isinstance(text, str) or not isinstance(wm, dict) or not isinstance(n_ids, int) or n_ids < 20:
            return None
        cases = re.findall(r"case\s+(\d+)\s*:\s*(\w+)\s*\(", text)
        probs = []
        labels = [int(a) for a, _ in cases]
        if sorted(labels) != list(range(n_ids)):
            dup = sorted({x for x in labels if labels.count(x) > 1})
            missing = sorted(set(range(n_ids)) - set(labels))
            probs.append(f"ids 0..{n_ids - 1} are allocated; the switch has duplicate labels {dup[:4]} and no case for {missing[:4]}")
        for a, rname in cases:
            m_ = re.search(r"_(\d+)$", rname)
            if not m_ or int(m_.group(1)) != int(a):
                probs.append(f"case {a} runs `{rname}`, a routine the .m files reach under another id")
        called = [r for _, r in cases]
        for k, ent in sorted(wm.items()):
            rn = ent[3] if isinstance(ent, (list, tuple)) and len(ent) > 3 and isinstance(ent[3], str) else None      # (namespace, class, role / name, routine, overload)
            if rn is not None and called.count(rn) != 1:
                probs.append(f"the routine `{rn}` registered under id {k} is run by {called.count(rn)} case(s)")
        return probs
    return ctx._get("dispatch_table_verdict", mk)


def rule_dispatch_table_by_evaluation(ctx, rep: Report, rid="I14"):
    """See dispatch_table_verdict."""
    ci, prog = mw(ctx)
    mf = prog.method("MatlabWrapper", "mex_function")
    loc = f"{ci.mod.rel}:{mf.lineno}"
    v = dispatch_table_verdict(ctx)
    rep.units["dispatch_table_evaluated"] = v is not None
    if v is None:
        rep.add(rid, "dispatch table evaluated on the sample id map", True, "not evaluable; I5 decides by abstract replay", loc, nontrivial=False)
        return
    rep.add(rid, "dispatch table:labels 0..n-1 once each, every case runs the routine named with its id, every routine has one case", not v,
            f"mex_function run on the id map of the sample declarations: {v[:3]}: a call from a .m file reaches another routine than the one generated for it, or none", loc)


# ------------------------------------------------------------------------------------------ T22 / I15 one file per free function, across re-opened namespaces
def rule_one_file_per_function_across_blocks(ctx, rep: Report, rid="T22"):
    """A namespace may be written in several blocks (and every interface file of a module re-opens the module's namespace).  The
    overloads of one free function then still belong into ONE `.m` file: a second file of the same path, produced for the second
    block, overwrites the first, and the ids of the overloads it held keep their `case` and routine but lose every call site.
    Decided by running wrap_namespace (the analyser's own interpreter) on a namespace written in two blocks, with overloads of one
    function in both and another function in one of them, and reading the list of files the run collected."""
    from .rules_matlab import SampleObj, _PathEval, _Raised, mini_exec, program_classes
    ci, prog = mw(ctx)
    fn = prog.method("MatlabWrapper", "wrap_namespace")
    loc = f"{ci.mod.rel}:{fn.lineno}"
    methods = _all_methods(prog, ci)
    classes = program_classes(prog, ["ArgumentList", "Argument", "MatlabWrapper", "Typename", "Type", "ReturnType"])
    me, cls, statics, meths, funcs = _emitter_samples(ctx)
    root = SampleObj(__kind__="Namespace", name="", parent="", full_namespaces=lambda: [""])

    def block(fs):
        b = SampleObj(__kind__="Namespace", name="ns", parent=root, full_namespaces=lambda: ["", "ns"], content=list(fs))
        for f_ in fs:
            f_["parent"] = b
        return b
    scale = [f_ for f_ in funcs if f_["name"] == "scale"]
    other = [f_ for f_ in funcs if f_["name"] == "clear"]
    if len(scale) < 3 or not other:
        raise AnalysisError(f"{rep.prop}/{rid}: the sample free functions changed")
    root["content"] = [block(scale[:1] + other), block(scale[2:3])]
    me["content"], me["includes"] = [], []
    me.setdefault("wrapper_file_headers", "// headers")
    ps = func_params(fn)
    env = dict(zip(ps, [me, root, True]))
    consts_ = {}
    for mi_ in prog.modules.values():
        if mi_.rel.startswith("gtwrap/matlab_wrapper/"):
            for st_ in mi_.tree.body:
                if isinstance(st_, ast.Assign) and len(st_.targets) == 1 and isinstance(st_.targets[0], ast.Name):
                    consts_[st_.targets[0].id] = st_.value
    try:
        mini_exec(fn, _with_templates(ctx, env), budget=400000, methods=methods, classes=classes, consts=consts_)
    except (_PathEval.Unknown, _Raised, TypeError, KeyError, IndexError, AttributeError) as ex:
        # (T14 still checks by structure that the free-function step runs for every namespace block; whether two blocks share a
        #  file is only decided where the emitters can be run)
        rep.add(rid, "free functions:wrap_namespace evaluated on a namespace written in two blocks", True, f"not evaluable ({str(ex)[:70]}); T14 decides the structural part",
                loc, nontrivial=False)
        rep.units["files_of_the_two_block_namespace"] = None
        return

    def flat(c, pre=""):
        out = []
        for x in c:
            if isinstance(x, (list, tuple)) and len(x) == 2 and isinstance(x[0], str) and isinstance(x[1], str):
                out.append(pre + x[0])
            elif isinstance(x, (list, tuple)) and len(x) == 2 and isinstance(x[0], str) and isinstance(x[1], list):
                out += flat(x[1], pre + x[0] + "/")
            elif isinstance(x, list):
                out += flat(x, pre)
        return out
    files = flat(me.get("content") or [])
    rep.units["files_of_the_two_block_namespace"] = files
    twice = sorted({f_ for f_ in files if files.count(f_) > 1})
    missing = [f_ for f_ in ("+ns/scale.m", "+ns/clear.m") if f_ not in files]
    rep.add(rid, "free functions:every function of a re-opened namespace gets its file", not missing,
            f"`namespace ns {{ double scale(double x); void clear(); }} namespace ns {{ double scale(double x, ns::K k, double w); }}` collects the files {files}: "
            f"{missing} missing", loc)
    rep.add(rid, "free functions:one file per name across the blocks of a re-opened namespace", not twice,
            f"`namespace ns {{ double scale(double x); void clear(); }} namespace ns {{ double scale(double x, ns::K k, double w); }}` collects the files {files}: "
            f"{twice} written twice - the later text replaces the earlier one and the ids of the overloads it held have no call site left", loc)
