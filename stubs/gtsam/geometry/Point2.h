#pragma once
#include <gtsam/base/Vector.h>
namespace gtsam {
struct Point2 {
  Point2(); Point2(const Vector& v);
  operator Vector() const;
};
}
