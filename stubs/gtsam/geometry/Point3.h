#pragma once
#include <gtsam/base/Vector.h>
namespace gtsam {
struct Point3 {
  Point3(); Point3(const Vector& v);
  operator Vector() const;
};
}
