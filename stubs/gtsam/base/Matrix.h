#pragma once
#include <gtsam/base/Vector.h>
namespace gtsam {
struct Matrix {
  Matrix(); Matrix(int m, int n);
  int rows() const; int cols() const;
  double& operator()(int i, int j); const double& operator()(int i, int j) const;
};
void print(const Matrix& A);
}
