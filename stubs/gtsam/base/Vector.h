// stub: just enough of gtsam::Vector for matlab.h to type-check
#pragma once
#include <memory>
#include <iostream>
#include <cstdint>
namespace gtsam {
struct Vector {
  Vector(); explicit Vector(int n);
  int size() const; int rows() const; int cols() const;
  double& operator()(int i); const double& operator()(int i) const;
};
void print(const Vector& v);
}
