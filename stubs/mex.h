/* Declaration-only stub of the documented MEX C API used by matlab.h (for -fsyntax-only analysis). */
#ifndef WRAPSA_STUB_MEX_H
#define WRAPSA_STUB_MEX_H
#include <stddef.h>
#include <stdint.h>
typedef struct mxArray_tag mxArray;
typedef size_t mwSize;
typedef size_t mwIndex;
typedef int32_t int32_T;
typedef uint16_t mxChar;
typedef enum { mxUNKNOWN_CLASS = 0, mxCELL_CLASS, mxSTRUCT_CLASS, mxLOGICAL_CLASS, mxCHAR_CLASS,
  mxVOID_CLASS, mxDOUBLE_CLASS, mxSINGLE_CLASS, mxINT8_CLASS, mxUINT8_CLASS, mxINT16_CLASS,
  mxUINT16_CLASS, mxINT32_CLASS, mxUINT32_CLASS, mxINT64_CLASS, mxUINT64_CLASS,
  mxFUNCTION_CLASS } mxClassID;
typedef enum { mxREAL = 0, mxCOMPLEX } mxComplexity;
void mexErrMsgIdAndTxt(const char *id, const char *msg, ...);
void mexErrMsgTxt(const char *msg);
int mexPrintf(const char *fmt, ...);
int mexCallMATLAB(int nlhs, mxArray *plhs[], int nrhs, mxArray *prhs[], const char *name);
const mxArray *mexGetVariablePtr(const char *ws, const char *name);
mxArray *mexGetVariable(const char *ws, const char *name);
int mexPutVariable(const char *ws, const char *name, const mxArray *p);
int mexAtExit(void (*fn)(void));
mxArray *mxCreateNumericArray(mwSize ndim, const mwSize *dims, mxClassID classid, mxComplexity flag);
mxArray *mxCreateNumericMatrix(mwSize m, mwSize n, mxClassID classid, mxComplexity flag);
mxArray *mxCreateDoubleMatrix(mwSize m, mwSize n, mxComplexity flag);
mxArray *mxCreateDoubleScalar(double v);
mxArray *mxCreateString(const char *s);
mxArray *mxCreateStructMatrix(mwSize m, mwSize n, int nfields, const char **names);
mxArray *mxDuplicateArray(const mxArray *a);
void mxDestroyArray(mxArray *a);
void mxFree(void *p);
void *mxGetData(const mxArray *a);
double *mxGetPr(const mxArray *a);
double mxGetScalar(const mxArray *a);
size_t mxGetM(const mxArray *a);
size_t mxGetN(const mxArray *a);
mxClassID mxGetClassID(const mxArray *a);
bool mxIsDouble(const mxArray *a);
bool mxIsComplex(const mxArray *a);
char *mxArrayToString(const mxArray *a);
int mxGetString(const mxArray *a, char *buf, mwSize buflen);
mxArray *mxGetProperty(const mxArray *a, mwIndex i, const char *name);
mxArray *mxGetField(const mxArray *a, mwIndex i, const char *name);
int mxAddField(mxArray *a, const char *name);
void mxSetFieldByNumber(mxArray *a, mwIndex i, int field, mxArray *v);
/* further documented C Matrix / MEX API (not used by the pinned header, declared so that an edited header
   still type-checks) */
size_t mxGetNumberOfElements(const mxArray *a);
mwSize mxGetNumberOfDimensions(const mxArray *a);
const mwSize *mxGetDimensions(const mxArray *a);
size_t mxGetElementSize(const mxArray *a);
bool mxIsEmpty(const mxArray *a);
bool mxIsScalar(const mxArray *a);
bool mxIsNumeric(const mxArray *a);
bool mxIsChar(const mxArray *a);
bool mxIsLogical(const mxArray *a);
bool mxIsLogicalScalar(const mxArray *a);
bool mxIsSingle(const mxArray *a);
bool mxIsInt8(const mxArray *a);
bool mxIsUint8(const mxArray *a);
bool mxIsInt16(const mxArray *a);
bool mxIsUint16(const mxArray *a);
bool mxIsInt32(const mxArray *a);
bool mxIsUint32(const mxArray *a);
bool mxIsInt64(const mxArray *a);
bool mxIsUint64(const mxArray *a);
bool mxIsStruct(const mxArray *a);
bool mxIsCell(const mxArray *a);
bool mxIsClass(const mxArray *a, const char *name);
const char *mxGetClassName(const mxArray *a);
void *mxMalloc(size_t n);
void *mxCalloc(size_t n, size_t size);
void *mxRealloc(void *p, size_t n);
mxArray *mxCreateLogicalScalar(bool v);
mxArray *mxCreateLogicalMatrix(mwSize m, mwSize n);
mxArray *mxCreateCellMatrix(mwSize m, mwSize n);
mxArray *mxCreateCharMatrixFromStrings(mwSize m, const char **s);
mxArray *mxGetCell(const mxArray *a, mwIndex i);
void mxSetCell(mxArray *a, mwIndex i, mxArray *v);
mxArray *mxGetFieldByNumber(const mxArray *a, mwIndex i, int field);
int mxGetNumberOfFields(const mxArray *a);
void mxSetProperty(mxArray *a, mwIndex i, const char *name, const mxArray *v);
void mxSetData(mxArray *a, void *p);
void mxSetM(mxArray *a, mwSize m);
void mxSetN(mxArray *a, mwSize n);
bool *mxGetLogicals(const mxArray *a);
mxChar *mxGetChars(const mxArray *a);
double *mxGetDoubles(const mxArray *a);
double *mxGetPi(const mxArray *a);
void mexWarnMsgTxt(const char *msg);
void mexWarnMsgIdAndTxt(const char *id, const char *msg, ...);
int mexEvalString(const char *cmd);
void mexLock(void);
void mexUnlock(void);
bool mexIsLocked(void);
const char *mexFunctionName(void);
void mexMakeArrayPersistent(mxArray *a);
void mexMakeMemoryPersistent(void *p);
#endif
