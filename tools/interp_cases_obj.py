"""Object-model and library cases for tools/interp_selftest.py (the analyser's own test functions)."""
OBJECT_CASES = [
    (7, """
import copy
class Box:
    def __init__(self, items, tag='t'):
        self.items = items
        self.tag = tag
    def list(self):
        return self.items
    def __len__(self):
        return len(self.items)
    def __repr__(self):
        return 'Box({})'.format(','.join(str(i) for i in self.items))
    @staticmethod
    def twice(x):
        return [x, x]
class Tagged(Box):
    def label(self):
        return self.tag + str(len(self))
def f(n):
    a = Box([1, 2])
    b = copy.copy(a)
    b.list().append(n)
    c = copy.deepcopy(a)
    c.list().append(99)
    t = Tagged(Box.twice(n), tag='k')
    return len(a), a.list(), len(c), str(a), '{}'.format(t), t.label(), isinstance(t, Box), isinstance(a, Tagged), f'{a}'
"""),
    ("a\x01b\\x41", r"""
import re, textwrap
def f(text):
    def bounded(m):
        e = m.group(0)
        if e[1] != 'x':
            return e
        return '\\%03o' % int(e[2:], 16)
    body = re.sub(r'\\(x[0-9a-f]{2}|.)', bounded, repr(text)[1:-1])
    return body, textwrap.indent(textwrap.dedent('''\
        a
          b
    '''), prefix='..'), re.findall(r'\d+', 'a1b22')
"""),
    ("dir/sub/multi.i", """
from pathlib import Path
import os.path as osp
def f(p):
    return Path(p).stem, Path(p).name, Path(p).suffix, str(Path(p).parent), osp.basename(p), osp.splitext(p)[0], p.rstrip('.i')
"""),
    (2, """
class Bag:
    def __init__(self, items):
        self.items = list(items)
    def __len__(self):
        return len(self.items)
class Flag:
    def __init__(self, on):
        self.on = on
    def __bool__(self):
        return self.on
    def __len__(self):
        return 5
def f(k):
    empty, full = Bag([]), Bag([1, k])
    out = []
    if empty:
        out.append("empty is true")
    if not empty:
        out.append("empty is false")
    if full:
        out.append("full is true")
    out.append("x" if empty else "y")
    out.append(1 if (empty or full) is full else 0)
    out.append(1 if (full and empty) is empty else 0)
    out.append([len(b) for b in (empty, full) if b])
    n = 0
    while full and n < k:
        n += 1
    out.append(n)
    out.append([bool(Flag(False)), bool(Flag(True)), 1 if Flag(False) else 0, len(Flag(False))])
    return out
"""),
    (3, """
class Name:
    def __init__(self, parts):
        self.parts = list(parts)
    def __str__(self):
        return '::'.join(self.parts)
    def __eq__(self, other):
        if isinstance(other, Name):
            return str(self) == str(other)
        return False
    def __ne__(self, other):
        return not self.__eq__(other)
class Plain:
    def __init__(self, n):
        self.n = n
def f(k):
    a, b, c = Name(['x', 'y']), Name(['x', 'y']), Name(['x'] * k)
    p, q = Plain(1), Plain(1)
    seen = [a]
    return [a == b, a != b, a == c, b in seen, c in seen, c not in seen, a == 'x::y', p == q, p in [q], p in [q, p], [b] == [a]]
"""),
    (4, """
class Tree:
    def __init__(self, kids):
        self.kids = list(kids)
    @property
    def size(self):
        return 1 + sum(k.size for k in self.kids)
    @property
    def is_leaf(self):
        return not self.kids
    def leaves(self):
        return [self] if self.is_leaf else [x for k in self.kids for x in k.leaves()]
def f(n):
    t = Tree([Tree([]), Tree([Tree([]) for _ in range(n)])])
    return [t.size, t.is_leaf, len(t.leaves()), t.kids[0].is_leaf]
"""),
]
