#!/bin/bash
# usage: tools/new_seed_round.sh <round-tag> <PID...>
# Creates a scratch worktree /tmp/<tag>-<PID> of /repo and the prompt /tmp/prompt-<tag>-<PID>.txt for a
# sub-agent that is to produce breaking changes for that property (property text only, nothing from /verif).
tag=$1; shift
for pid in "$@"; do
  wt=/tmp/$tag-$pid
  git -C /repo worktree add -q --detach "$wt" HEAD || continue
  cp /repo/gtwrap/matlab_wrapper/matlab_wrapper.tpl "$wt/gtwrap/matlab_wrapper/" 2>/dev/null
  sed "s#/tmp/seed-$pid#$wt#g" /tmp/prompt-$pid.txt > /tmp/prompt-$tag-$pid.txt
  echo "$wt /tmp/prompt-$tag-$pid.txt"
done
