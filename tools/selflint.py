#!/usr/bin/env python3
"""Unbound-name lint over the checker's own modules (the same idea as rule U1, applied to /verif/wrapsa):
prints every function that reads a name bound nowhere.  Run before committing rule changes."""
import ast, builtins, glob, os, sys
HERE = os.path.dirname(os.path.dirname(os.path.abspath(__file__)))
bad = 0
for f in sorted(glob.glob(os.path.join(HERE, "wrapsa", "*.py")) + glob.glob(os.path.join(HERE, "wrapsa", "props", "*.py"))):
    t = ast.parse(open(f).read())
    for p_ in ast.walk(t):
        for c_ in ast.iter_child_nodes(p_):
            c_._parent = p_
    seen_defs = {}
    for st in t.body:
        if isinstance(st, (ast.FunctionDef, ast.ClassDef)):
            if st.name in seen_defs:
                print(f"{os.path.relpath(f, HERE)}:{st.lineno}: `{st.name}` redefines the top-level definition at line {seen_defs[st.name]}")
                bad += 1
            seen_defs[st.name] = st.lineno
    mod = set()
    def top_level(stmts):
        for st in stmts:
            if isinstance(st, (ast.FunctionDef, ast.ClassDef)):
                continue
            yield st
            for fld in ("body", "orelse", "finalbody", "handlers"):
                yield from top_level(getattr(st, fld, []) or [])
    for st in top_level(t.body):          # imports inside a function are names of that function only
        if isinstance(st, (ast.Import, ast.ImportFrom)):
            for a in st.names:
                mod.add((a.asname or a.name).split(".")[0])
    for st in t.body:
        for x in ast.walk(st) if not isinstance(st, (ast.FunctionDef, ast.ClassDef)) else [st]:
            if isinstance(x, ast.Name) and isinstance(x.ctx, ast.Store):
                mod.add(x.id)
            elif isinstance(x, (ast.FunctionDef, ast.ClassDef)):
                mod.add(x.name)
    for fn in [n for n in ast.walk(t) if isinstance(n, ast.FunctionDef)]:
        bound = set()
        chain = [fn]
        enc = fn
        while getattr(enc, "_parent", None) is not None:
            enc = enc._parent
            if isinstance(enc, (ast.FunctionDef, ast.ClassDef)):
                chain.append(enc)
        for scope in chain:
            if isinstance(scope, ast.ClassDef):
                bound.add(scope.name)
                continue
            for sub in ast.walk(scope):
                if isinstance(sub, (ast.FunctionDef, ast.Lambda)):
                    bound |= {x.arg for x in sub.args.args + sub.args.kwonlyargs}
                    if sub.args.vararg:
                        bound.add(sub.args.vararg.arg)
                    if sub.args.kwarg:
                        bound.add(sub.args.kwarg.arg)
                if isinstance(sub, ast.Name) and isinstance(sub.ctx, ast.Store):
                    bound.add(sub.id)
                if isinstance(sub, ast.ExceptHandler) and sub.name:
                    bound.add(sub.name)
                if isinstance(sub, (ast.FunctionDef, ast.ClassDef)):
                    bound.add(sub.name)
                if isinstance(sub, (ast.Import, ast.ImportFrom)):
                    for a in sub.names:
                        bound.add((a.asname or a.name).split(".")[0])
        un = sorted({x.id for x in ast.walk(fn) if isinstance(x, ast.Name) and isinstance(x.ctx, ast.Load) and x.id not in bound
                     and x.id not in mod and not hasattr(builtins, x.id) and x.id != "__file__"})
        if un:
            bad += 1
            print(f"{os.path.relpath(f, HERE)}: {fn.name}: unbound {un}")
# the interpreter the evaluation rules rely on agrees with Python on the analyser's own test functions
import subprocess as _sp
_r = _sp.run([sys.executable, os.path.join(os.path.dirname(os.path.abspath(__file__)), "interp_selftest.py")], capture_output=True, text=True)
print(_r.stdout.strip().splitlines()[-1] if _r.stdout.strip() else "interp selftest: no output")
if _r.returncode != 0:
    print(_r.stdout)
    bad += 1
print("selflint:", "clean" if not bad else f"{bad} problem(s)")
sys.exit(1 if bad else 0)
