#!/usr/bin/env python3
"""usage: header_sweep.py [--seed N] [--max M]
Operator-level mutation sweep of matlab.h (the C++ runtime header), the counterpart of mutation_sweep.py: one-token
edits (comparison flips, off-by-one constants, swapped M/N, dropped `!`, swapped index variables, deleted simple
statements) applied to a scratch copy under /dev/shm.  A mutant that still type-checks against /verif/stubs (the
repository's tests never compile the header, so nothing else can notice it) is run against the C18 and C11 checks;
mutants on which both are silent are printed for manual triage - equivalent edits, behaviour no property covers, or
a gap in a rule.  A discovery tool, not a registered check."""
import concurrent.futures as cf
import os, random, re, shutil, subprocess, sys, tempfile

HERE = os.path.dirname(os.path.dirname(os.path.abspath(__file__)))
STUBS = os.path.join(HERE, "stubs")
OPS = [
    (r"(?<![=!<>])==(?!=)", "!="), (r"!=", "=="), (r"(?<![<=\-])<(?![<=])(?=\s*[\w(])", "<="), (r"\|\|", "&&"), (r"&&", "||"),
    (r"!(?=[\w(])", ""), (r"\b0\b", "1"), (r"\b1\b", "2"), (r"\b1\b", "0"), (r"\b2\b", "1"), (r"\b3\b", "2"),
    (r"\bmxGetM\b", "mxGetN"), (r"\bmxGetN\b", "mxGetM"), (r"\brows\(\)", "cols()"), (r"\bcols\(\)", "rows()"),
    (r"\bi\b(?=[,)\]])", "j"), (r"\bj\b(?=[,)\]])", "i"), (r"\+\+", "--"), (r"\btrue\b", "false"), (r"\bfalse\b", "true"),
    (r"\bmxDOUBLE_CLASS\b", "mxINT32_CLASS"), (r"\bmxUINT32OR64_CLASS\b", "mxINT32_CLASS"), (r"\bmxREAL\b", "mxCOMPLEX"),
]


def candidates(path):
    out = []
    lines = open(path).read().split("\n")
    in_c = False
    for i, ln in enumerate(lines):
        st = ln.strip()
        if in_c:
            if "*/" in st:
                in_c = False
            continue
        if st.startswith("//"):
            continue
        if "/*" in st and "*/" not in st:
            in_c = True
            continue
        if not st or st.startswith(("//", "#", "*", "/*")):
            continue
        code = ln.split("//")[0]
        for pat, rep in OPS:
            for m in re.finditer(pat, code):
                pre = code[:m.start()]
                if pre.count('"') % 2:
                    continue
                new = code[:m.start()] + rep + code[m.end():] + ln[len(code):]
                if new != ln:
                    out.append((i, ln, new, f"{pat} -> {rep}"))
        if re.match(r"^\s+[\w.\[\]>*()-]+\s*(=|\+=)[^=].*;\s*$", code) or re.match(r"^\s+(mxDestroyArray|mxFree|delete)\b.*;\s*$", code) \
                or re.match(r"^\s+(error|mexErrMsgTxt|checkScalar)\(.*;\s*$", code):
            ind = re.match(r"^\s*", ln).group(0)
            out.append((i, ln, ind + ";", "delete statement"))
    return out


def run(m):
    i, old, new, what = m
    d = tempfile.mkdtemp(prefix="hs-", dir="/dev/shm")
    try:
        subprocess.run(f"git -C /repo archive HEAD | tar -x -C {d}", shell=True, check=True)
        p = os.path.join(d, "matlab.h")
        lines = open(p).read().split("\n")
        lines[i] = new
        open(p, "w").write("\n".join(lines))
        c = subprocess.run(["clang++-14" if shutil.which("clang++-14") else "clang++", "-std=c++17", "-fsyntax-only", "-I", STUBS, "-Wno-everything",
                            "-x", "c++", p], capture_output=True)
        if c.returncode != 0:
            return m, "nocompile", []
        env = dict(os.environ, WRAPSA_NO_EVIDENCE="1")
        hits = []
        for pid in ("C18", "C11"):
            r = subprocess.run([os.path.join(HERE, "check"), pid, "quick", "--repo", d], capture_output=True, text=True, env=env, cwd=HERE)
            if r.returncode == 1:
                hits.append(pid + ":" + "/".join(sorted({l.split()[1] for l in r.stdout.splitlines() if l.startswith("  rule ")})))
            elif r.returncode == 2:
                hits.append(pid + ":E")
        return m, ("caught" if hits else "SURVIVED"), hits
    finally:
        shutil.rmtree(d, ignore_errors=True)


def main():
    seed, mx = 1, 10 ** 6
    a = sys.argv[1:]
    while a:
        k = a.pop(0)
        if k == "--seed":
            seed = int(a.pop(0))
        elif k == "--max":
            mx = int(a.pop(0))
    cands = candidates("/repo/matlab.h")
    random.Random(seed).shuffle(cands)
    total = len(cands)
    cands = cands[:mx]
    stats = {}
    with cf.ProcessPoolExecutor(max_workers=16) as ex:
        for m, res, hits in ex.map(run, cands):
            stats[res] = stats.get(res, 0) + 1
            if res == "SURVIVED":
                print(f"SURVIVED matlab.h:{m[0] + 1} [{m[3]}]\n    - {m[1].strip()[:150]}\n    + {m[2].strip()[:150]}", flush=True)
            elif res == "caught":
                print(f"caught   matlab.h:{m[0] + 1} [{m[3]}] {' '.join(hits)[:120]}", flush=True)
    print("summary:", stats, "of", len(cands), "mutants; candidates in total:", total)


if __name__ == "__main__":
    main()
