#!/usr/bin/env python3
"""Regenerate MANIFEST.json from the table below (kept in one place so it stays valid)."""
import json, os, sys
HERE = os.path.dirname(os.path.dirname(os.path.abspath(__file__)))
sys.path.insert(0, HERE)
from wrapsa.manifest_table import CHECKS, NOT_APPLICABLE, ENGINES  # noqa

checks = []
for pid, c in sorted(CHECKS.items()):
    checks.append({
        "property_id": pid,
        "quick_cmd": f"./check {pid} quick",
        "thorough_cmd": f"./check {pid} thorough",
        "evidence_file": f"/verif/evidence/{pid}.json",
        "replay_cmd_template": f"./check {pid} --replay {{path}}",
        "engine": c["engine"],
        "level_claimed": {"category": "other", "text": c["text"], "design_ref": c["design_ref"]},
        "level_note": c["note"],
        "technique": c["technique"],
    })
m = {
    "version": 1,
    "setup_cmd": "/venv/bin/python -c \"import ast, json, sys; sys.path.insert(0, '/verif'); import wrapsa.main\"",
    "hooks": {
        "guard": "GTWRAP_VERIF",
        "enable": "no hooks: the checks read /repo's sources (ast / clang -fsyntax-only) and never build or run it",
        "baseline_off_cmd": "cd /repo && /venv/bin/python -m pytest -ra -q -p no:cacheprovider --timeout=900 --continue-on-collection-errors",
        "source_commits": [],
        "add_only": True,
    },
    "engines": ENGINES,
    "checks": checks,
    "notes": "Static analysis only. Each check decides the structural clauses named in its level text; "
             "clauses that quantify over run-time values are listed as not decided in DESIGN.md. "
             "exit 2 + ANALYSIS-ERROR = analyser could not decide (never a violation).",
    "not_applicable": [{"property_id": p, "reason": r} for p, r in sorted(NOT_APPLICABLE.items())],
}
with open(os.path.join(HERE, "MANIFEST.json"), "w") as f:
    json.dump(m, f, indent=1)
    f.write("\n")
print("wrote MANIFEST.json:", len(checks), "checks,", len(NOT_APPLICABLE), "not applicable")
