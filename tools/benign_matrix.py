#!/usr/bin/env python3
"""usage: benign_matrix.py <dir-with-benign_out> [...]
Run every check against every behaviour-preserving refactoring found under <dir>/benign_out/<n>/patch.diff
(each applied to its own scratch copy of /repo's HEAD under /dev/shm).  Every cell should be '.' (silent);
'V' is a false alarm, 'E' an analysis error (the rule could not follow the refactored shape)."""
import concurrent.futures as cf
import glob, os, shutil, subprocess, sys, tempfile

HERE = os.path.dirname(os.path.dirname(os.path.abspath(__file__)))
PIDS = [f"C{i:02d}" for i in range(1, 20)]


def one(pdir):
    d = tempfile.mkdtemp(prefix="bm-", dir="/dev/shm")
    try:
        subprocess.run(f"git -C /repo archive HEAD | tar -x -C {d}", shell=True, check=True)
        shutil.copy("/repo/gtwrap/matlab_wrapper/matlab_wrapper.tpl", os.path.join(d, "gtwrap/matlab_wrapper/"))
        r = subprocess.run(["patch", "-p1", "--no-backup-if-mismatch", "-i", os.path.join(pdir, "patch.diff")], cwd=d, capture_output=True, text=True)
        if r.returncode != 0:
            return pdir, None, "patch does not apply: " + r.stdout[-200:]
        env = dict(os.environ, WRAPSA_NO_EVIDENCE="1", PYTHONDONTWRITEBYTECODE="1")
        row = {}
        for pid in PIDS:
            p = subprocess.run([os.path.join(HERE, "check"), pid, "quick", "--repo", d], capture_output=True, text=True, env=env, cwd=HERE)
            msgs = [l.strip()[:260] for l in p.stdout.splitlines() if l.startswith("  rule ") or l.startswith("ANALYSIS-ERROR")]
            row[pid] = ({0: ".", 1: "V", 2: "E"}.get(p.returncode, "?"), msgs)
        return pdir, row, ""
    finally:
        shutil.rmtree(d, ignore_errors=True)


def main():
    dirs = []
    for a in sys.argv[1:]:
        dirs += sorted(glob.glob(os.path.join(a, "benign_out", "*", "")), key=lambda x: (len(x), x))
    if not sys.argv[1:]:
        # no argument: the collection kept under /verif/benign
        dirs = sorted(glob.glob(os.path.join(HERE, "benign", "*", "")))
    dirs = [x for x in dirs if os.path.exists(os.path.join(x, "patch.diff"))]
    with cf.ProcessPoolExecutor(max_workers=16) as ex:
        res = list(ex.map(one, dirs))
    bad = 0
    for pdir, row, err in res:
        if row is None:
            print(f"{pdir}: {err}")
            continue
        line = "".join(row[p][0] for p in PIDS)
        print(f"{pdir}: {line}")
        for p in PIDS:
            if row[p][0] != ".":
                bad += 1
                for m in row[p][1][:4]:
                    print(f"      {p}: {m}")
    print("cells not silent:", bad)


if __name__ == "__main__":
    main()
