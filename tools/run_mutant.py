import sys, subprocess, shutil, tempfile, os
sys.path.insert(0, '/verif')
from wrapsa.mutants import TABLE
pid, mid = sys.argv[1], sys.argv[2]
m = next(x for x in TABLE[pid] if x["id"] == mid)
d = tempfile.mkdtemp(prefix="mut-", dir="/dev/shm")
for item in ("gtwrap", "scripts", "matlab.h", "cmake", "tests", "pybind11", "DOCS.md", "README.md"):
    src = os.path.join("/repo", item)
    if os.path.isdir(src):
        shutil.copytree(src, os.path.join(d, item), symlinks=True)
    elif os.path.exists(src):
        shutil.copy2(src, os.path.join(d, item))
for e in m["edits"]:
    rel, old, new = e[:3]
    p = os.path.join(d, rel)
    s = open(p).read()
    assert old in s, (rel, old[:40])
    open(p, "w").write(s.replace(old, new, 1))
    print("EDIT", rel, repr(old[:70]), "->", repr(new[:120]))
env = dict(os.environ, WRAPSA_NO_EVIDENCE="1")
r = subprocess.run(["/verif/check", pid, "quick", "--repo", d], capture_output=True, text=True, env=env)
print("\n".join(l[:400] for l in r.stdout.splitlines() if "KNOWN" not in l)[-3000:])
print(r.stderr[-1500:])
shutil.rmtree(d)
