#!/bin/bash
# usage: tools/verify_seed.sh <dir-with-seed_out> <seed-subdir> <PROPERTY> [more properties to run...]
# Confirms an independently produced breaking change (demo passes clean, tests pass with it, demo
# fails with it) in a private scratch worktree of /repo, then runs the checks against /repo with
# the patch applied and reverts it.  The producer's own worktree is only read.
set -u
src=$1; sd=$2; shift 2
P="$src/seed_out/$sd"
wt=/tmp/vs-wt-$$
git -C /repo worktree add -q --detach "$wt" HEAD || exit 2
cp /repo/gtwrap/matlab_wrapper/matlab_wrapper.tpl "$wt/gtwrap/matlab_wrapper/" 2>/dev/null
cleanup() { git -C /repo worktree remove --force "$wt" 2>/dev/null; rm -rf "$wt"; }
trap cleanup EXIT
cd "$wt" || exit 2
# demos written by the producers refer to their own worktree path; run them against the private one
mkdir -p "$wt/seed_out/$sd"; cp -r "$P/." "$wt/seed_out/$sd/"
sed "s#$src#$wt#g" "$P/demo.py" > "$wt/seed_out/$sd/demo.py"
echo "--- demo on clean tree"; PYTHONPATH=$wt timeout 600 /venv/bin/python seed_out/$sd/demo.py >/tmp/vs_clean.$$.log 2>&1; c=$?; tail -2 /tmp/vs_clean.$$.log; echo "clean demo exit=$c"
git apply "$P/patch.diff" || { echo "PATCH DOES NOT APPLY in worktree"; exit 2; }
echo "--- suite with the change"; PYTHONPATH=$wt /venv/bin/python -m pytest -q -p no:cacheprovider tests 2>&1 | tail -1
echo "--- demo with the change"; PYTHONPATH=$wt timeout 600 /venv/bin/python seed_out/$sd/demo.py >/tmp/vs_patched.$$.log 2>&1; d=$?; tail -3 /tmp/vs_patched.$$.log; echo "patched demo exit=$d"
rm -f /tmp/vs_clean.$$.log /tmp/vs_patched.$$.log
echo "--- checks against /repo with the patch applied"
if git -C /repo apply --check "$P/patch.diff" 2>/dev/null; then
  git -C /repo apply "$P/patch.diff"
  for pid in "$@"; do (cd /verif && WRAPSA_NO_EVIDENCE=1 ./check $pid quick 2>&1 | grep -v "^WARNING" | head -12); done
  git -C /repo checkout -q -- .
else
  echo "PATCH DOES NOT APPLY to /repo"
fi
git -C /repo status --short | head -3
