#!/bin/bash
# Every recorded breaking change against the check of its OWN property (exit 1 expected); prints the ones that are not reported.
#   tools/own_sweep.sh            all seeds
#   tools/own_sweep.sh C02 C09    seeds of these properties only
cd /verif
ls seeded | grep -v "MATRIX\|README" | while read sd; do
  p=$(grep -o '"property": "C[0-9]*"' seeded/$sd/meta.json | grep -o "C[0-9]*")
  if [ $# -eq 0 ] || echo " $* " | grep -q " $p "; then echo $sd; fi
done | xargs -P 14 -n 1 /verif/tools/own_check.sh 2>/dev/null | grep -v "exit=1"
echo "sweep done"
