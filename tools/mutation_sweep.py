#!/usr/bin/env python3
"""usage: mutation_sweep.py [--seed N] [--max M] [--files f1,f2,...]
Operator-level mutation sweep of borglab/wrap used to look for gaps in the checks: every mutant is a one-token
edit (comparison flip, off-by-one constant, slice bound, and/or, dropped `not`, swapped sibling attribute, deleted
simple statement) applied to a scratch copy under /dev/shm.  A mutant that still passes the 94 tests is run against
all 19 checks; mutants on which every check is silent ("survivors") are printed for manual triage - they are either
equivalent mutants or behaviour the properties do not cover or a gap in a check."""
import concurrent.futures as cf
import os, random, re, shutil, subprocess, sys, tempfile

HERE = os.path.dirname(os.path.dirname(os.path.abspath(__file__)))
STRINGS_MODE = False
PIDS = [f"C{i:02d}" for i in range(1, 20)]
FILES = ["gtwrap/pybind_wrapper.py", "gtwrap/matlab_wrapper/wrapper.py", "gtwrap/matlab_wrapper/mixins.py",
         "gtwrap/template_instantiator/helpers.py", "gtwrap/template_instantiator/classes.py", "gtwrap/template_instantiator/namespace.py",
         "gtwrap/template_instantiator/method.py", "gtwrap/template_instantiator/function.py", "gtwrap/template_instantiator/constructor.py",
         "gtwrap/template_instantiator/declaration.py", "gtwrap/interface_parser/classes.py", "gtwrap/interface_parser/type.py",
         "gtwrap/interface_parser/function.py", "gtwrap/interface_parser/namespace.py", "gtwrap/interface_parser/template.py",
         "gtwrap/interface_parser/tokens.py", "gtwrap/interface_parser/enum.py", "gtwrap/interface_parser/variable.py",
         "gtwrap/interface_parser/declaration.py", "gtwrap/interface_parser/module.py", "gtwrap/xml_parser/xml_parser.py",
         "scripts/pybind_wrap.py", "scripts/matlab_wrap.py"]
SWAPS = [("is_ptr", "is_shared_ptr"), ("is_ref", "is_ptr"), ("is_const", "is_ref"), (".methods", ".static_methods"), ("namespaces()", "full_namespaces()"),
         (".name", ".original.name"), ("ctors", "methods"), ("type1", "type2"), ("is_virtual", "is_const"), ("instantiations", "typenames")]
OPS = [
    (r"(?<![=!<>])==(?!=)", "!="), (r"!=", "=="), (r"(?<![<=])<(?![<=])\s", "<= "), (r"(?<![>=-])>(?![>=])\s", ">= "),
    (r"\bis not None\b", "is None"), (r"\bis None\b", "is not None"), (r"\band\b", "or"), (r"\bor\b", "and"), (r"\bnot (?!in\b)", ""),
    (r"\[1:\]", "[2:]"), (r"\[:-1\]", "[:-2]"), (r"\[1:\]", "[0:]"), (r"\b0\b", "1"), (r"\b1\b", "2"), (r"\b1\b", "0"), (r"- 1\b", "- 0"), (r"\+ 1\b", "+ 2"),
    (r"\bTrue\b", "False"), (r"\bFalse\b", "True"), (r"\bcontinue\b", "pass"), (r"\bbreak\b", "pass"),
]


STRING_OPS = [
    (r"\b0\b", "1"), (r"\b1\b", "2"), (r"\b1\b", "0"), (r"\b2\b", "1"), (r"\b2\b", "3"), (r"(?<![=~!<>])==(?!=)", "~="), (r"&&", "||"), (r"\|\|", "&&"),
    (r"nargin-1", "nargin"), (r"in\+1", "in"), (r"\bout\[", "in["), (r"\bin\[", "out["), (r"-1\b", "-0"), (r"\+1\b", "+0"),
    (r"\bnargout\b", "nargin"), (r"\bvarargin\b", "varargout"), (r"\bbegin\(\)", "end()"), (r"\bfalse\b", "true"), (r"\btrue\b", "false"),
    (r"\binsert\b", "erase"), (r"\berase\b", "insert"), (r"\bdelete\b", ""), (r"!=", "=="), (r"~=", "=="),
]


def string_candidates(root):
    """One-token edits *inside* string literals: the text of the generated C++ / MATLAB code."""
    out = []
    for rel in STRING_FILES:
        p = os.path.join(root, rel)
        if not os.path.exists(p):
            continue
        lines = open(p).read().split("\n")
        in_tpl = in_doc = False
        for i, ln in enumerate(lines):
            st = ln.strip()
            tq = st.count('"""') + st.count("'''")
            if not in_tpl and not in_doc and tq % 2 == 1:
                if st.startswith(('"""', "'''", 'r"""')):
                    in_doc = True
                else:
                    in_tpl = True
                continue
            if in_doc:
                if tq % 2 == 1:
                    in_doc = False
                continue
            if in_tpl and tq % 2 == 1:
                in_tpl = False
                continue
            if not st or st.startswith("#"):
                continue
            for pat, rep in STRING_OPS:
                for m in re.finditer(pat, ln):
                    pre = ln[:m.start()]
                    inside = in_tpl or (pre.count("'") - pre.count("\\'")) % 2 == 1 or (pre.count('"') - pre.count('\\"')) % 2 == 1
                    if not inside:
                        continue
                    if re.search(r"\{[^{}]*$", pre) and re.match(r"[^{}]*\}", ln[m.end():]) and not pre.endswith("{{"):
                        continue        # inside a format field
                    new = ln[:m.start()] + rep + ln[m.end():]
                    if new != ln:
                        out.append((rel, i, ln, new, f"text: {pat} -> {rep}"))
    return out


STRING_FILES = ["gtwrap/matlab_wrapper/wrapper.py", "gtwrap/matlab_wrapper/templates.py", "gtwrap/matlab_wrapper/mixins.py", "gtwrap/pybind_wrapper.py"]


def candidates(root):
    if STRINGS_MODE:
        return string_candidates(root)
    out = []
    for rel in FILES:
        p = os.path.join(root, rel)
        if not os.path.exists(p):
            continue
        lines = open(p).read().split("\n")
        in_doc = False
        for i, ln in enumerate(lines):
            st = ln.strip()
            if st.count('"""') % 2 == 1 or st.count("'''") % 2 == 1:
                in_doc = not in_doc
                continue
            if in_doc or not st or st.startswith("#") or st.startswith(("import ", "from ", "def ", "class ", "@", '"', "'")):
                continue
            code = ln.split("  #")[0]
            for pat, rep in OPS:
                for m in re.finditer(pat, code):
                    # skip matches inside string literals (rough: odd number of quotes before)
                    pre = code[:m.start()]
                    if pre.count("'") % 2 or pre.count('"') % 2:
                        continue
                    new = code[:m.start()] + rep + code[m.end():] + ln[len(code):]
                    out.append((rel, i, ln, new, f"{pat} -> {rep}"))
            for a, b in SWAPS:
                for x, y in ((a, b), (b, a)):
                    for m in re.finditer(re.escape(x) + r"(?![\w(])" if not x.endswith(")") else re.escape(x), code):
                        pre = code[:m.start()]
                        if pre.count("'") % 2 or pre.count('"') % 2:
                            continue
                        new = code[:m.start()] + y + code[m.end():] + ln[len(code):]
                        if new != ln:
                            out.append((rel, i, ln, new, f"swap {x} -> {y}"))
            if re.match(r"^\s+[\w.\[\]]+(\.append|\.extend|\s*\+=|\s*=)[^=]", ln) and not st.endswith(("(", ",", "\\", "[", "{")) and st.count("(") == st.count(")"):
                ind = re.match(r"^\s*", ln).group(0)
                out.append((rel, i, ln, ind + "pass", "delete statement"))
    return out


def run(m):
    rel, i, old, new, what = m
    d = tempfile.mkdtemp(prefix="ms-", dir="/dev/shm")
    try:
        subprocess.run(f"git -C /repo archive HEAD | tar -x -C {d}", shell=True, check=True)
        shutil.copy("/repo/gtwrap/matlab_wrapper/matlab_wrapper.tpl", os.path.join(d, "gtwrap/matlab_wrapper/"))
        p = os.path.join(d, rel)
        lines = open(p).read().split("\n")
        lines[i] = new
        open(p, "w").write("\n".join(lines))
        c = subprocess.run(["/venv/bin/python", "-m", "py_compile", p], capture_output=True)
        if c.returncode != 0:
            return m, "nocompile", []
        t = subprocess.run(["/venv/bin/python", "-m", "pytest", "-q", "-x", "-p", "no:cacheprovider", "tests"], cwd=d, capture_output=True, text=True,
                           env=dict(os.environ, PYTHONPATH=d), timeout=600)
        if t.returncode != 0:
            return m, "killed-by-tests", []
        env = dict(os.environ, WRAPSA_NO_EVIDENCE="1")
        hits = []
        for pid in PIDS:
            r = subprocess.run([os.path.join(HERE, "check"), pid, "quick", "--repo", d], capture_output=True, text=True, env=env, cwd=HERE)
            if r.returncode == 1:
                hits.append(pid + ":" + "/".join(sorted({l.split()[1] for l in r.stdout.splitlines() if l.startswith("  rule ")})))
            elif r.returncode == 2:
                hits.append(pid + ":E")
        return m, ("caught" if hits else "SURVIVED"), hits
    except subprocess.TimeoutExpired:
        return m, "timeout", []
    finally:
        shutil.rmtree(d, ignore_errors=True)


def main():
    global STRINGS_MODE
    seed, mx, files = 1, 200, None
    a = sys.argv[1:]
    while a:
        k = a.pop(0)
        if k == "--seed":
            seed = int(a.pop(0))
        elif k == "--max":
            mx = int(a.pop(0))
        elif k == "--files":
            files = a.pop(0).split(",")
        elif k == "--strings":
            STRINGS_MODE = True
    global FILES
    if files:
        FILES = files
    cands = candidates("/repo")
    random.Random(seed).shuffle(cands)
    cands = cands[:mx]
    stats = {}
    with cf.ProcessPoolExecutor(max_workers=16) as ex:
        for m, res, hits in ex.map(run, cands):
            stats[res] = stats.get(res, 0) + 1
            if res == "SURVIVED":
                print(f"SURVIVED {m[0]}:{m[1] + 1} [{m[4]}]\n    - {m[2].strip()[:150]}\n    + {m[3].strip()[:150]}", flush=True)
            elif res == "caught":
                print(f"caught   {m[0]}:{m[1] + 1} [{m[4]}] {' '.join(hits)[:120]}", flush=True)
    print("summary:", stats, "of", len(cands), "mutants; candidates in total:", len(candidates('/repo')))


if __name__ == "__main__":
    main()
