#!/usr/bin/env python3
"""Refresh the generated tables of DESIGN.md (between <!-- BEGIN x --> / <!-- END x --> markers):
seeded changes (from seeded/*/meta.json) and fixes / known findings (from known_findings.json)."""
import glob, json, os, re
HERE = os.path.dirname(os.path.dirname(os.path.abspath(__file__)))
d = open(os.path.join(HERE, "DESIGN.md")).read()

rows = []
for m in sorted(glob.glob(os.path.join(HERE, "seeded", "*", "meta.json"))):
    x = json.load(open(m))
    res = x["check_result"].replace("|", "/")
    rows.append(f"| `{x['id']}` | {x['property']} | {x['needs_to_manifest'].replace('|', '/')} | "
                f"{'**missed at first**; now ' if x['initially_missed'] else ''}{res} |")
seeds = ("| seeded change (`/verif/seeded/<id>/`) | property | needs, to manifest | reported by |\n|---|---|---|---|\n" + "\n".join(rows) +
         f"\n\n{len(rows)} changes kept; {sum(1 for r in rows if 'missed at first' in r)} of them were missed by the checks as they stood "
         "when the change arrived and led to the strengthening named in the last column.")

k = json.load(open(os.path.join(HERE, "known_findings.json")))
fx = "\n".join("* " + f.replace("fixed: ", "") for f in k["fixed"])
kf = "\n".join(f"* property={f['property']} {f['rule']} `{f['construct']}` - {f['what']} Witness: `{f['witness']}`" for f in k["findings"]) or "(none)"


def put(tag, text, d):
    pat = re.compile(rf"(<!-- BEGIN {tag} -->\n).*?(<!-- END {tag} -->)", re.S)
    assert pat.search(d), tag
    return pat.sub(lambda m: m.group(1) + text + "\n" + m.group(2), d)


import sys
sys.path.insert(0, HERE)
from wrapsa import mutants
nb = sum(1 for t in mutants.TABLE.values() for m in t if m["kind"] == "break")
nn = sum(1 for t in mutants.TABLE.values() for m in t if m["kind"] == "benign")
d = re.sub(r"\d+ breaking \+ \d+ benign edits", f"{nb} breaking + {nn} benign edits", d)
nfixed = len(k["fixed"])
d = re.sub(r"\d+ genuine defects were repaired", f"{nfixed} genuine defects were repaired", d)
d = put("seeds", seeds, d)
d = put("fixed", fx, d)
d = put("known", kf, d)
open(os.path.join(HERE, "DESIGN.md"), "w").write(d)
print("DESIGN.md tables refreshed:", len(rows), "seeds,", len(k["fixed"]), "fixed,", len(k["findings"]), "known findings")
