#!/usr/bin/env python3
"""usage: auto_twins.py <fstring|hoist|tern2if|if2tern|loop2join|pos2kw|inline> <out-dir> [file ...]
Mechanical behaviour-preserving rewrites of the generators, one function at a time, written as
<out-dir>/benign_out/<n>/patch.diff for tools/benign_matrix.py:
  fstring  every `'<template>'.format(k=<simple expr>, ...)` of the function becomes the equivalent f-string
           (only calls whose arguments are names / attributes / constants / subscripts: evaluation order cannot matter);
  tern2if  `x = A if c else B` becomes an if/else statement;  if2tern  the reverse, for if/else pairs that assign one name;
  loop2join  an accumulation loop with a one-statement body becomes a join / a list comprehension;
  pos2kw   positional arguments of calls of functions of the same file are passed by keyword;
  hoist    every keyword argument of a `.format` call in a simple statement is first bound to a local
           (`k_v = <expr>` in argument order, directly in front of the statement) and the local is passed.
A twin is kept only if the repository's test suite still passes with it (run in a scratch copy under /dev/shm)."""
import ast, os, shutil, string, subprocess, sys, tempfile

FILES = ["gtwrap/pybind_wrapper.py", "gtwrap/matlab_wrapper/wrapper.py", "gtwrap/template_instantiator/helpers.py",
         "gtwrap/template_instantiator/classes.py", "gtwrap/interface_parser/type.py", "gtwrap/interface_parser/function.py",
         "gtwrap/xml_parser/xml_parser.py"]


def simple(e) -> bool:
    if isinstance(e, (ast.Name, ast.Constant)):
        return True
    if isinstance(e, ast.Attribute):
        return simple(e.value)
    if isinstance(e, ast.Subscript):
        return simple(e.value) and simple(e.slice)
    return False


def const_str(e):
    if isinstance(e, ast.Constant) and isinstance(e.value, str):
        return e.value
    return None


def span(src_lines, node):
    """(start offset, end offset) of node in the joined source."""
    starts = [0]
    for l in src_lines:
        starts.append(starts[-1] + len(l))
    def off(line, col):
        # col is in utf8 bytes
        text = src_lines[line - 1]
        return starts[line - 1] + len(text.encode("utf8")[:col].decode("utf8"))
    return off(node.lineno, node.col_offset), off(node.end_lineno, node.end_col_offset)


def fstring_of(call):
    tpl = const_str(call.func.value)
    if tpl is None or any(isinstance(a, ast.Starred) for a in call.args) or any(k.arg is None for k in call.keywords):
        return None
    args = list(call.args)
    kw = {k.arg: k.value for k in call.keywords}
    if not all(simple(a) for a in args + list(kw.values())):
        return None
    values = []
    auto = 0
    try:
        pieces = list(string.Formatter().parse(tpl))
    except ValueError:
        return None
    for lit, field, spec, conv in pieces:
        if lit:
            values.append(ast.Constant(value=lit))
        if field is None:
            continue
        if spec or conv:
            return None
        base = field.split(".")[0].split("[")[0]
        rest = field[len(base):]
        if "[" in rest:
            return None
        if base == "":
            if auto >= len(args):
                return None
            e = args[auto]
            auto += 1
        elif base.isdigit():
            if int(base) >= len(args):
                return None
            e = args[int(base)]
        elif base in kw:
            e = kw[base]
        else:
            return None
        text = ast.unparse(e) + rest
        values.append(ast.FormattedValue(value=ast.parse(text, mode="eval").body, conversion=-1))
    return ast.unparse(ast.JoinedStr(values=values))


def functions(tree):
    for n in ast.walk(tree):
        if isinstance(n, ast.FunctionDef):
            yield n


def rewrite_fstring(src, fn):
    lines = src.splitlines(keepends=True)
    edits = []
    for c in ast.walk(fn):
        if isinstance(c, ast.Call) and isinstance(c.func, ast.Attribute) and c.func.attr == "format":
            # outermost only
            new = fstring_of(c)
            if new is not None:
                a, b = span(lines, c)
                edits.append((a, b, new))
    # drop nested edits
    edits.sort()
    keep = []
    for e in edits:
        if keep and e[0] < keep[-1][1]:
            continue
        keep.append(e)
    out = src
    for a, b, new in reversed(keep):
        out = out[:a] + new + out[b:]
    return out if keep else None


def rewrite_hoist(src, fn):
    lines = src.splitlines(keepends=True)
    inserts = []
    edits = []
    used = set(n.id for n in ast.walk(fn) if isinstance(n, ast.Name)) | {a.arg for a in fn.args.args}
    for st in ast.walk(fn):
        if not isinstance(st, (ast.Assign, ast.AugAssign, ast.Return)) or st.value is None:
            continue
        v = st.value
        if not (isinstance(v, ast.Call) and isinstance(v.func, ast.Attribute) and v.func.attr == "format" and v.keywords and not v.args
                and all(k.arg for k in v.keywords)):
            continue
        if any(isinstance(x, (ast.Lambda, ast.ListComp, ast.GeneratorExp, ast.NamedExpr)) for x in ast.walk(v)):
            continue
        if st.col_offset == 0:
            continue
        indent = " " * st.col_offset
        pre = []
        for k in v.keywords:
            if simple(k.value):
                continue
            name = f"{k.arg}_v"
            while name in used:
                name += "_"
            used.add(name)
            pre.append(f"{indent}{name} = {ast.unparse(k.value)}\n")
            a, b = span(lines, k.value)
            edits.append((a, b, name))
        if pre:
            a, _ = span(lines, st)
            inserts.append((a - st.col_offset, "".join(pre)))
    if not edits:
        return None
    allops = [(a, b, t) for a, b, t in edits] + [(a, a, t) for a, t in inserts]
    allops.sort(key=lambda x: (x[0], x[1]))
    out = src
    for a, b, t in reversed(allops):
        out = out[:a] + t + out[b:]
    return out


def rewrite_ternary_to_if(src, fn):
    """`x = A if c else B` (a statement of its own)  ->  `if c: x = A / else: x = B`."""
    lines = src.splitlines(keepends=True)
    edits = []
    for st in ast.walk(fn):
        if isinstance(st, ast.Assign) and len(st.targets) == 1 and isinstance(st.targets[0], ast.Name) and isinstance(st.value, ast.IfExp) and st.col_offset > 0:
            ind = " " * st.col_offset
            t = st.targets[0].id
            new = (f"if {ast.unparse(st.value.test)}:\n{ind}    {t} = {ast.unparse(st.value.body)}\n"
                   f"{ind}else:\n{ind}    {t} = {ast.unparse(st.value.orelse)}")
            a, b = span(lines, st)
            edits.append((a, b, new))
    if not edits:
        return None
    out = src
    for a, b, new in sorted(edits, reverse=True):
        out = out[:a] + new + out[b:]
    return out


def rewrite_if_to_ternary(src, fn):
    """`if c: x = A / else: x = B` (nothing else in the branches)  ->  `x = A if c else B`."""
    lines = src.splitlines(keepends=True)
    edits = []
    for st in ast.walk(fn):
        if isinstance(st, ast.If) and len(st.body) == 1 and len(st.orelse) == 1 and all(
                isinstance(x, ast.Assign) and len(x.targets) == 1 and isinstance(x.targets[0], ast.Name) for x in (st.body[0], st.orelse[0])) \
                and st.body[0].targets[0].id == st.orelse[0].targets[0].id:
            par = getattr(st, "_parent", None)
            if isinstance(par, ast.If) and st in par.orelse and len(par.orelse) == 1:
                continue          # an `elif`: rewriting it would need an `else:` line
            t = st.body[0].targets[0].id
            new = f"{t} = ({ast.unparse(st.body[0].value)}) if ({ast.unparse(st.test)}) else ({ast.unparse(st.orelse[0].value)})"
            a, b = span(lines, st)
            edits.append((a, b, new))
    if not edits:
        return None
    keep = []
    for e in sorted(edits):
        if keep and e[0] < keep[-1][1]:
            continue
        keep.append(e)
    out = src
    for a, b, new in reversed(keep):
        out = out[:a] + new + out[b:]
    return out


def rewrite_loop_to_join(src, fn):
    """`acc = ''` directly followed by `for x in it: acc += E`  ->  `acc = ''.join(E for x in it)`;
    `acc = []` directly followed by `for x in it: acc.append(E)`  ->  `acc = [E for x in it]`."""
    lines = src.splitlines(keepends=True)
    edits = []
    for blk_owner in ast.walk(fn):
        for fld in ("body", "orelse", "finalbody"):
            blk = getattr(blk_owner, fld, None)
            if not isinstance(blk, list):
                continue
            for a_, b_ in zip(blk, blk[1:]):
                if not (isinstance(a_, ast.Assign) and len(a_.targets) == 1 and isinstance(a_.targets[0], ast.Name) and isinstance(b_, ast.For)
                        and not b_.orelse and len(b_.body) == 1):
                    continue
                acc = a_.targets[0].id
                st = b_.body[0]
                tgt = ast.unparse(b_.target)
                it = ast.unparse(b_.iter)
                if any(isinstance(x, ast.Name) and x.id == acc for x in ast.walk(b_.iter)):
                    continue
                new = None
                if isinstance(a_.value, ast.Constant) and a_.value.value == "" and isinstance(st, ast.AugAssign) and isinstance(st.op, ast.Add) \
                        and isinstance(st.target, ast.Name) and st.target.id == acc and not any(isinstance(x, ast.Name) and x.id == acc for x in ast.walk(st.value)):
                    new = f"{acc} = ''.join({ast.unparse(st.value)} for {tgt} in {it})"
                elif isinstance(a_.value, ast.List) and not a_.value.elts and isinstance(st, ast.Expr) and isinstance(st.value, ast.Call) \
                        and isinstance(st.value.func, ast.Attribute) and st.value.func.attr == "append" and isinstance(st.value.func.value, ast.Name) \
                        and st.value.func.value.id == acc and len(st.value.args) == 1 \
                        and not any(isinstance(x, ast.Name) and x.id == acc for x in ast.walk(st.value.args[0])):
                    new = f"{acc} = [{ast.unparse(st.value.args[0])} for {tgt} in {it}]"
                if new is None:
                    continue
                s0, _ = span(lines, a_)
                _, e1 = span(lines, b_)
                edits.append((s0, e1, new))
    if not edits:
        return None
    keep = []
    for e in sorted(edits):
        if keep and e[0] < keep[-1][1]:
            continue
        keep.append(e)
    out = src
    for a, b, new in reversed(keep):
        out = out[:a] + new + out[b:]
    return out


_SIGS = {}


def rewrite_pos_to_kw(src, fn):
    """Every positional argument of a call of a method of the same file (`self.<m>(a, b)`, `<Class>.<m>(a, b)`) or of a
    module-level function of the same file is passed by keyword (`self.<m>(x=a, y=b)`), in the same order."""
    lines = src.splitlines(keepends=True)
    sigs = _SIGS.get(id(src))
    if sigs is None:
        tree = ast.parse(src)
        sigs = {}
        for n in ast.walk(tree):
            if isinstance(n, ast.FunctionDef):
                sigs.setdefault(n.name, []).append(n)
        _SIGS.clear()
        _SIGS[id(src)] = sigs
    edits = []
    for c in ast.walk(fn):
        if not isinstance(c, ast.Call) or not c.args or any(isinstance(a, ast.Starred) for a in c.args) or any(k.arg is None for k in c.keywords):
            continue
        name, drop = None, False
        if isinstance(c.func, ast.Attribute) and isinstance(c.func.value, ast.Name) and c.func.value.id == "self":
            name, drop = c.func.attr, True
        elif isinstance(c.func, ast.Name):
            name = c.func.id
        if name is None or len(sigs.get(name, [])) != 1:
            continue
        d = sigs[name][0]
        if d.args.vararg or d.args.posonlyargs:
            continue
        static = any(ast.unparse(x) == "staticmethod" for x in d.decorator_list)
        params = [a.arg for a in d.args.args]
        if drop and not static:
            params = params[1:]
        elif not drop and params[:1] == ["self"]:
            continue
        if len(c.args) > len(params):
            continue
        for a, pn in zip(c.args, params):
            s0, _ = span(lines, a)
            edits.append((s0, s0, pn + "="))
    if not edits:
        return None
    out = src
    for a, b, new in sorted(set(edits), reverse=True):
        out = out[:a] + new + out[b:]
    return out


def rewrite_inline_locals(src, fn):
    """`x = E` (E without calls: evaluation order cannot matter) directly followed by a statement that reads x exactly once,
    x read nowhere else  ->  the statement with `(E)` in place of x."""
    lines = src.splitlines(keepends=True)
    edits = []
    reads = {}
    for n in ast.walk(fn):
        if isinstance(n, ast.Name) and isinstance(n.ctx, ast.Load):
            reads[n.id] = reads.get(n.id, 0) + 1
    stores = {}
    for n in ast.walk(fn):
        if isinstance(n, ast.Name) and isinstance(n.ctx, ast.Store):
            stores[n.id] = stores.get(n.id, 0) + 1
    for blk_owner in ast.walk(fn):
        for fld in ("body", "orelse", "finalbody"):
            blk = getattr(blk_owner, fld, None)
            if not isinstance(blk, list):
                continue
            for a_, b_ in zip(blk, blk[1:]):
                if not (isinstance(a_, ast.Assign) and len(a_.targets) == 1 and isinstance(a_.targets[0], ast.Name)):
                    continue
                x = a_.targets[0].id
                if reads.get(x, 0) != 1 or stores.get(x, 0) != 1 or any(isinstance(c, (ast.Call, ast.Lambda, ast.ListComp, ast.GeneratorExp, ast.Await, ast.Yield)) for c in ast.walk(a_.value)):
                    continue
                if not isinstance(b_, (ast.Return, ast.Assign, ast.AugAssign, ast.Expr)):
                    continue
                uses = [n for n in ast.walk(b_) if isinstance(n, ast.Name) and n.id == x and isinstance(n.ctx, ast.Load)]
                if len(uses) != 1:
                    continue
                par = getattr(uses[0], "_parent", None)
                if isinstance(par, (ast.JoinedStr, ast.FormattedValue)):
                    continue
                s0, _ = span(lines, a_)
                line_start = src.rfind("\n", 0, s0) + 1
                _, e0 = span(lines, a_)
                line_end = src.find("\n", e0) + 1
                u0, u1 = span(lines, uses[0])
                edits.append((u0, u1, "(" + ast.unparse(a_.value) + ")"))
                edits.append((line_start, line_end, ""))
    if not edits:
        return None
    keep = []
    for e in sorted(edits):
        if keep and e[0] < keep[-1][1]:
            return None
        keep.append(e)
    out = src
    for a, b, new in reversed(keep):
        out = out[:a] + new + out[b:]
    return out


def main():
    mode, outdir = sys.argv[1], sys.argv[2]
    files = sys.argv[3:] or FILES
    rw = {"fstring": rewrite_fstring, "hoist": rewrite_hoist, "tern2if": rewrite_ternary_to_if, "if2tern": rewrite_if_to_ternary,
          "loop2join": rewrite_loop_to_join, "pos2kw": rewrite_pos_to_kw, "inline": rewrite_inline_locals}[mode]
    os.makedirs(os.path.join(outdir, "benign_out"), exist_ok=True)
    n = 0
    base = tempfile.mkdtemp(prefix="tw-", dir="/dev/shm")
    try:
        subprocess.run(f"git -C /repo archive HEAD | tar -x -C {base}", shell=True, check=True)
        shutil.copy("/repo/gtwrap/matlab_wrapper/matlab_wrapper.tpl", os.path.join(base, "gtwrap/matlab_wrapper/"))
        subprocess.run("git init -q && git add -A && git -c user.email=a@b -c user.name=x commit -qm base", shell=True, cwd=base, check=True)
        for rel in files:
            src = open(os.path.join(base, rel)).read()
            tree = ast.parse(src)
            for p_ in ast.walk(tree):
                for c_ in ast.iter_child_nodes(p_):
                    c_._parent = p_
            for fn in functions(tree):
                new = rw(src, fn)
                if new is None or new == src:
                    continue
                try:
                    ast.parse(new)
                except SyntaxError as e:
                    print("skip (does not parse)", rel, fn.name, e)
                    continue
                open(os.path.join(base, rel), "w").write(new)
                r = subprocess.run(["/venv/bin/python", "-m", "pytest", "-q", "-x", "-p", "no:cacheprovider", "tests"], cwd=base, capture_output=True, text=True,
                                   env=dict(os.environ, PYTHONPATH=base))
                ok = " passed" in r.stdout.splitlines()[-1] and "failed" not in r.stdout.splitlines()[-1]
                diff = subprocess.run(["git", "diff"], cwd=base, capture_output=True, text=True).stdout
                subprocess.run(["git", "checkout", "-q", "--", "."], cwd=base)
                if not ok:
                    print("dropped (suite fails)", rel, fn.name, r.stdout.splitlines()[-1][:80])
                    continue
                n += 1
                d = os.path.join(outdir, "benign_out", str(n))
                os.makedirs(d, exist_ok=True)
                open(os.path.join(d, "patch.diff"), "w").write(diff)
                open(os.path.join(d, "note.txt"), "w").write(f"{mode} twin of {rel}:{fn.name} (mechanical, suite passes)\n")
                print("kept", n, rel, fn.name)
    finally:
        shutil.rmtree(base, ignore_errors=True)
    print("twins:", n)


if __name__ == "__main__":
    main()
