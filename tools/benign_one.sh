#!/bin/bash
b=$1; shift
d=$(mktemp -d -p /dev/shm bn-XXXX)
for i in gtwrap scripts matlab.h cmake tests pybind11 DOCS.md README.md; do cp -a /repo/$i $d/ 2>/dev/null; done
(cd $d && (git apply --directory . /verif/benign/$b/patch.diff 2>/dev/null || patch -s -p1 -i /verif/benign/$b/patch.diff >/dev/null 2>&1)) || { echo "$b NOAPPLY"; rm -rf $d; exit; }
for p in "$@"; do WRAPSA_NO_EVIDENCE=1 /verif/check $p quick --repo $d >/dev/null 2>&1; e=$?; [ $e -ne 0 ] && echo "$b $p exit=$e"; done
rm -rf $d
