#!/usr/bin/env python3
"""Self-test of the analyser's interpreter (wrapsa.rules_matlab.mini_exec): small functions written for this purpose are run
both by Python itself and by the interpreter; the results have to agree.  (Nothing of the analysed repository is involved.)"""
import ast
import os
import sys

sys.path.insert(0, os.path.dirname(os.path.dirname(os.path.abspath(__file__))))
sys.path.insert(0, os.path.dirname(os.path.abspath(__file__)))
from wrapsa.rules_matlab import mini_exec, _PathEval, _Raised   # noqa: E402

CASES = [
    ("def f(xs, sep):\n    from functools import reduce\n    def glue(a, b):\n        return a + sep + b\n    return reduce(glue, xs), reduce(lambda a, b: a + len(b), xs, 0), reduce(glue, xs[:1])", [["ab", "c", "def"], "-"]),
    ("def f(xs, ys):\n    a = list(xs)\n    a[1:1] = ys\n    b = list(xs)\n    b[:2] = ys[:1]\n    c = list(xs)\n    c[len(c):] = ys\n    d = list(xs)\n    d[::2] = [0, 0]\n    return a, b, c, d", [[1, 2, 3], [8, 9]]),
    ("def f(n, xs):\n    out = []\n    for x in xs:\n        out.append((0 <= x < n, n > x >= 1 != 2, 1 < x < 3 < n, x == 2 == n - 1))\n    return out", [3, [0, 1, 2, 3, -1]]),
    ("def f(xs):\n    out = []\n    for i, x in enumerate(xs):\n        if x % 2:\n            continue\n        out.append((i, x))\n    return out\n", [[1, 2, 3, 4]]),
    ("def f(names):\n    found = [0]\n    for name in names:\n        found = (v for v in found if v != name)\n    return list(found)\n", [[0, 1]]),
    ("def f(names):\n    g = [[n]]\n    for n in names:\n        g = [x + [n] for x in g]\n    return g\n".replace("[[n]]", "[[]]"), [["a", "b"]]),
    ("def f(a):\n    b = c = []\n    b.append(a)\n    return c\n", [5]),
    ("def f(a):\n    x = y = a + 1\n    x += 1\n    return (x, y)\n", [5]),
    ("def f(xs):\n    d = {}\n    for x in xs:\n        d.setdefault(x[0], []).append(x)\n    return [v for vs in d.values() for v in vs]\n", [["ab", "cd", "ax"]]),
    ("def f(s):\n    return '%s-%03o-%04x' % (s, 8, 255)\n", ["q"]),
    ("def f(s):\n    return '{0}:{name!s}:{1}'.format(s, 2, name='n')\n", ["q"]),
    ("def f(s):\n    return f'{s}-{len(s)}' + s.upper()[1:]\n", ["abc"]),
    ("def f(xs):\n    i = 0\n    out = []\n    while i < len(xs):\n        if xs[i] == 3:\n            break\n        out.append(xs[i])\n        i += 1\n    else:\n        out.append(-1)\n    return out\n", [[1, 2, 3, 4]]),
    ("def f(xs):\n    ys = xs\n    ys += [9]\n    return xs\n", [[1]]),
    ("def f(xs):\n    ys = xs\n    ys = ys + [9]\n    return xs\n", [[1]]),
    ("def f(xs):\n    return sorted(xs, key=lambda x: -x)[:2], max(xs), sum(xs), any(x > 3 for x in xs), all(xs)\n", [[3, 1, 4, 0]]),
    ("def f(a, b):\n    return a or b, a and b, (a if b else 'z'), not a\n", ["", "y"]),
    ("def f(xs):\n    def g(x, k=2):\n        return x * k\n    return [g(x) for x in xs] + [g(1, k=5)]\n", [[1, 2]]),
    ("def f(xs):\n    t = 0\n    for x in xs:\n        for y in xs:\n            if y > x:\n                break\n            t += y\n        else:\n            t += 100\n    return t\n", [[1, 2]]),
    ("def f(s):\n    import_ = s.split('::')\n    return '::'.join(import_[1:] + ['x']), s.rsplit('::', 1), s.startswith('a'), s.replace('::', '.')\n", ["a::b::c"]),
    ("def f(d):\n    return sorted(d.items()), d.get('z', 7), list(d), 'a' in d\n", [{"a": 1, "b": 2}]),
    ("def f(xs):\n    a, *rest = xs\n    return a, rest\n", [[1, 2, 3]]),
    ("def f(xs):\n    return [x for x in xs if x][::-1], xs[-1], xs[1:-1]\n", [[0, 1, 2, 3]]),
    ("def f(n):\n    return [i * j for i in range(n) for j in range(i)], {i: i * i for i in range(n)}, {i % 2 for i in range(n)}\n", [4]),
    ("def f(xs):\n    out = []\n    for x in xs:\n        try_ = x\n        out.insert(-1, try_)\n    return out\n", [[1, 2, 3]]),
    ("def f(x):\n    if x > 2:\n        return 'big'\n    elif x == 2:\n        return 'two'\n    return 'small'\n", [2]),
    ("def f(xs):\n    g = (x * 2 for x in xs)\n    xs.append(10)\n    return list(g)\n", [[1, 2]]),
    ("def f(k):\n    xs = [1, 2, 3]\n    g = (x for x in xs if x != k)\n    k = 1\n    return list(g)\n", [2]),
]


from interp_cases_obj import OBJECT_CASES   # noqa: E402


def main():
    bad = 0
    for src, args in CASES:
        fn = ast.parse(src).body[0]
        for p in ast.walk(fn):
            for c in ast.iter_child_nodes(p):
                c._parent = p
        ns = {}
        exec(compile(src, "<case>", "exec"), ns)          # the case is the analyser's own text, not repository code
        import copy
        want = ns["f"](*copy.deepcopy(args))
        params = [a.arg for a in fn.args.args]
        try:
            got = mini_exec(fn, dict(zip(params, copy.deepcopy(args))), budget=5000)
        except (_PathEval.Unknown, _Raised) as ex:
            print("UNSUPPORTED", src.splitlines()[1].strip()[:50], "->", ex)
            continue

        def norm(v):
            if isinstance(v, (list, tuple)):
                return [norm(x) for x in v]
            if isinstance(v, set):
                return sorted(norm(x) for x in v)
            if isinstance(v, dict):
                return sorted((k, norm(x)) for k, x in v.items())
            return v
        if norm(got) != norm(want):
            bad += 1
            print("MISMATCH", src.replace("\n", " | ")[:120], "python:", want, "interpreter:", got)
    for arg, src in OBJECT_CASES:
        tree = ast.parse(src)
        for p in ast.walk(tree):
            for c in ast.iter_child_nodes(p):
                c._parent = p
        ns = {}
        exec(compile(src, "<case>", "exec"), ns)
        want = ns["f"](arg)
        classes = {}
        for c in tree.body:
            if isinstance(c, ast.ClassDef):
                d = {}
                for b in c.bases:
                    d.update({k: v for k, v in classes.get(b.id, {}).items() if k != "__bases__"})
                d.update({m.name: m for m in c.body if isinstance(m, ast.FunctionDef)})
                d["__bases__"] = [b.id for b in c.bases] + [x for b in c.bases for x in classes.get(b.id, {}).get("__bases__", [])]
                classes[c.name] = d
        fn = next(x for x in tree.body if isinstance(x, ast.FunctionDef) and x.name == "f")
        try:
            got = mini_exec(fn, {fn.args.args[0].arg: arg}, budget=20000, classes=classes or None)
        except (_PathEval.Unknown, _Raised) as ex:
            bad += 1
            print("UNSUPPORTED object case ->", ex)
            continue
        if [list(x) if isinstance(x, tuple) else x for x in got] != [list(x) if isinstance(x, tuple) else x for x in want]:
            bad += 1
            print("MISMATCH object case: python:", want, "interpreter:", got)
    print(f"interp selftest: {len(CASES) + len(OBJECT_CASES)} cases, {bad} mismatches")
    return 1 if bad else 0


if __name__ == "__main__":
    sys.exit(main())
