#!/usr/bin/env python3
"""usage: keep_seed.py <worktree> <n> <id> <property> <caught_by|MISSED> <initially_missed:yes|no> <needs...>"""
import json, os, shutil, sys
wt, n, sid, prop, caught, initially = sys.argv[1:7]
needs = " ".join(sys.argv[7:])
src = os.path.join(wt, "seed_out", n)
dst = os.path.join("/verif/seeded", sid)
os.makedirs(dst, exist_ok=True)
for f in os.listdir(src):
    if os.path.isfile(os.path.join(src, f)):
        shutil.copy2(os.path.join(src, f), os.path.join(dst, f))
meta = {
    "id": sid, "property": prop,
    "origin": "written by an independent sub-agent given only the property text and a scratch worktree",
    "needs_to_manifest": needs,
    "confirmed": ["demo.py exits 0 on the unchanged tree", "patch applies; the 94 existing tests still pass with it",
                  "demo.py exits non-zero with the patch"],
    "ran": [f"tools/verify_seed.sh {wt} {n} {prop}",
            f"git -C /repo apply seeded/{sid}/patch.diff && ./check {prop} quick; git -C /repo checkout -- ."],
    "check_result": caught, "initially_missed": initially == "yes",
}
json.dump(meta, open(os.path.join(dst, "meta.json"), "w"), indent=1)
print("kept", dst)
