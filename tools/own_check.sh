#!/bin/bash
sd=$1
prop=$(/venv/bin/python -c "import json,sys; print(json.load(open('/verif/seeded/$sd/meta.json'))['property'])")
d=$(mktemp -d -p /dev/shm own-XXXX)
for i in gtwrap scripts matlab.h cmake tests pybind11 DOCS.md README.md; do cp -a /repo/$i $d/ 2>/dev/null; done
(cd $d && (git apply --directory . /verif/seeded/$sd/patch.diff 2>/dev/null || patch -s -p1 -i /verif/seeded/$sd/patch.diff >/dev/null 2>&1)) || { echo "$sd NOAPPLY"; rm -rf $d; exit; }
WRAPSA_NO_EVIDENCE=1 /verif/check $prop quick --repo $d >/dev/null 2>&1; echo "$sd $prop exit=$?"
rm -rf $d
